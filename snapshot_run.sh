#!/bin/bash
# For `vp run --with-repo -- ./snapshot_run.sh <command...>`: a background run must not look at /repo itself while seeded
# changes are being applied there. In a *snapshot* of /verif (never in /verif itself) this rewrites every /repo path of the
# harness to the repository snapshot ($VP_RUN_REPO), then runs the command. Results of such runs are not evidence.
HERE="$(cd "$(dirname "$0")" && pwd)"
[ "$HERE" = "/verif" ] && { echo "refusing to rewrite /verif itself"; exit 9; }
[ -d "${VP_RUN_REPO:-}" ] || { echo "VP_RUN_REPO not set (use vp run --with-repo)"; exit 9; }
cd "$HERE"
for f in tools_manifest.py harness/apicheck/Cargo.toml harness/Cargo.toml harness/subjgen/src/main.rs harness/subject-rt/Cargo.toml \
         harness/vgraph/src/c19p.rs harness/model/src/harvest.rs fuzz/Cargo.toml fuzz/build.rs refresh_evidence.sh check sweep.sh thorough_all.sh thorough_some.sh seeded/run_round.sh; do
  [ -f "$f" ] && sed -i "s#/repo\b#$VP_RUN_REPO#g; s#cd /verif#cd $HERE#g" "$f"
done
exec "$@"
