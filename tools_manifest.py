#!/usr/bin/env python3
"""Regenerates MANIFEST.json from the table below (keeps it schema-valid)."""
import json, os
ROOT = os.path.dirname(os.path.abspath(__file__))
props = [json.loads(l) for l in open(os.path.join(ROOT, "properties.jsonl"))]

# id -> (technique, level text, level note, design ref)
CLAIMED = {
 "C01": ("property-based testing: proptest-generated definitions x model-guided covering inputs + random walks, differential against a reference lexer (regex-automata per-pattern DFAs / exact literals)",
         "Exploration: thousands of random definitions per run; for each, inputs covering every (graph state x reference state, byte-class boundary) pair plus random walks are lexed and every attempt is compared (winner, span) with the reference. Absence is not established; coverage is what the evidence file measures.",
         "Trusted: regex-syntax/regex-automata as the definition of a pattern's language (the property names the regex crate as ground truth); harness graph interpreter for tier G.",
         "7/C01"),
 "C02": ("property-based testing: same generator, oracle = longest viable prefix (co-reachability on per-pattern DFAs) + span rule",
         "Exploration: every error attempt of every generated (definition,input) is compared with the documented span rule computed independently from the pattern DFAs.",
         "Trusted: regex-automata DFAs for viability; UTF-8 rounding rule as stated in the property.", "7/C02"),
 "C03": ("property-based testing: generated definitions x inputs; tiling/termination invariants + structural invariants of the captured graph",
         "Exploration: iterator termination (step bound), span tiling with skipped regions observed from the subject, repeated None, and structural graph invariants on every accepted definition.",
         "Trusted: the step bound 2*len+4 as a sound termination watchdog.", "7/C03"),
}
PENDING = "check not built yet in this revision of /verif (design in DESIGN.md section 7); will be claimed once its check exists"

checks = []
na = []
for p in props:
    i = p["id"]
    if i in CLAIMED:
        tech, text, note, ref = CLAIMED[i]
        checks.append({
            "property_id": i,
            "quick_cmd": f"./check {i} --tier quick",
            "thorough_cmd": f"./check {i} --tier thorough",
            "evidence_file": f"/verif/evidence/{i}.json",
            "replay_cmd_template": f"./check {i} --replay {{path}}",
            "engine": "vgraph",
            "level_claimed": {"category": "exploration", "text": text, "design_ref": ref},
            "level_note": note,
            "technique": tech,
        })
    else:
        na.append({"property_id": i, "reason": PENDING})

m = {
 "version": 1,
 "setup_cmd": "./check --setup",
 "hooks": {
  "guard": "verif_hooks",
  "enable": "cargo features logos-codegen/verif_hooks (graph capture) and logos/verif_hooks (read trace); the harness crates enable them through path dependencies on /repo",
  "baseline_off_cmd": "cd /repo && cargo test --workspace --no-fail-fast --offline",
  "source_commits": ["f0effc6", "6621ab7"],
  "add_only": True,
 },
 "engines": [
  {"name": "vgraph", "path": "harness/vgraph", "serves_properties": sorted(CLAIMED), "kind_free_text": "tier G: proptest-driven in-process checks linking logos-codegen (capture hook) and the reference model"},
 ],
 "checks": checks,
 "not_applicable": na,
 "notes": "All checks: ./check <ID> [--tier quick|thorough] [--replay F]; seed from VERIF_SEED. Exit 2 = harness trouble/inconclusive, never a violation.",
}
json.dump(m, open(os.path.join(ROOT, "MANIFEST.json"), "w"), indent=1)
print("claimed", len(checks), "pending", len(na))
