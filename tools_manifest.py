#!/usr/bin/env python3
"""Regenerates MANIFEST.json from the table below (keeps it schema-valid)."""
import json, os, subprocess
ROOT = os.path.dirname(os.path.abspath(__file__))
props = [json.loads(l) for l in open(os.path.join(ROOT, "properties.jsonl"))]

REF = "Trusted: regex-syntax/regex-automata (the engine of the regex crate, same version as in the lockfile) as the definition of a pattern's language - the property names the regex crate as ground truth; the harness' own graph interpreter for tier G (tier X, the compiled lexers, is the arbiter)."

# id -> (engine, technique, level text, level note, design ref)
CLAIMED = {
 "C01": ("vgraph+subjects", "property-based differential testing: proptest definitions x model-guided transition-cover inputs + proptest random walks, per-attempt comparison with a reference lexer; captured graph (tier G) and compiled lexers in 4 feature configurations (tier X); definitions = proptest families + fixed path definitions + the definitions harvested from the repository's own tests, examples and book",
         "Exploration. Thousands of random definitions per run (tier G) and a compiled subject set in all four code generator/runtime configurations (tier X); every attempt of every lexing is compared (winner, span) with the reference built from the pattern sources. Absence is not established.", REF, "7/C01"),
 "C02": ("vgraph+subjects", "property-based testing: same generators; oracle = longest viable prefix (co-reachability on per-pattern DFAs) + span rule with char-boundary rounding",
         "Exploration. Every error attempt of every generated (definition,input) is compared with the documented span rule computed independently; tiers G and X (4 configurations).", REF, "7/C02"),
 "C03": ("vgraph+subjects", "property-based testing: tiling/termination invariants over generated (definition,input) pairs with skipped regions observed from the subject, plus structural invariants of every captured graph",
         "Exploration. Step-bounded iteration, strictly increasing non-empty spans, gaps == logged skips, end at len, repeated None; root records nothing / no eoi edge after eoi edge; empty-matching definitions are generated in C19's must-reject classes.", "Trusted: the bound 2*len+4 next() calls as termination watchdog.", "7/C03"),
 "C04": ("subjects", "property-based testing on compiled str-mode lexers: char-boundary predicate on every observable span before slice()/remainder() are called and compared",
         "Exploration. Runtime clause: generated Unicode-heavy definitions x valid UTF-8 inputs in 4 configurations, every span (also through spanned()) checked for char boundaries before slice()/remainder() are compared. Acceptance clause (tier G): for every str-mode definition the derive accepts, each pattern's and subpattern's reference DFA is walked in product with a UTF-8 validator; a match while mid-character is a counterexample.", "Trusted: Rust's str::is_char_boundary.", "7/C04"),
 "C05": ("apicheck+subjects", "property-based testing + sanitizers (ASan builds, Miri as interpreter): Source::read model check (proptest), compiled lexers on exactly sized inputs, default-vs-forbid_unsafe build differential on full observation records",
         "Exploration. read(): Some iff offset+N<=len without overflow (offsets near len, usize::MAX and usize::MAX - address), bytes equal (4 builds + 2 ASan builds). Lexing: exactly sized heap copies of every input and of every prefix of short inputs, no panic in any configuration, two ASan builds; every observation record identical between default and forbid_unsafe builds (tail-call and state-machine); a sample spread over every subject is re-lexed under Miri (both code generators; no undefined behaviour, observations equal to the native run); thorough adds release builds of the subjects and the read() histories under Miri.", "Trusted: ASan redzones and Miri's allocation tracking for out-of-allocation reads and out-of-range unchecked slices (sources are exactly sized heap allocations).", "7/C05"),
 "C06": ("subjects", "differential testing between builds: identical generated sources compiled with and without state_machine_codegen; full observation records (items, spans, error codes, logs, partial-mode runs) compared byte for byte",
         "Exploration. Equivalence clause decided by build-against-build comparison (items, spans, error codes, skip/callback logs, partial-mode runs) over the covering + random inputs of every subject incl. the callbacks family. Stack clause: child process per (stress definition, input shape, size 16 .. 4*10^6, thorough 16*10^6) on a fixed 256 KiB thread stack in both state-machine builds; death at a larger size after the 16-unit baseline succeeded is the violation (verified to discriminate: the tail-call build dies at 10^5 consecutive skips).", "Trusted: deterministic input generation (same seed => same inputs in both builds).", "7/C06"),
 "C07": ("subjects", "property-based testing on compiled lexers: every split point of every input; partial items must be a leading run of the one-shot items of the input and of generated alternative continuations; position and chunked-history relations",
         "Exploration in 4 configurations; soundness (a: leading run of the one-shot items of the input and of 6 generated continuations), position (b) and chunked history (d) are differential against the same build; completeness (c) uses the reference: every committed item must be determined by the buffer and at None the pending attempt must depend on more input (RefLexer::wait over all 257 next symbols), with the documented one-char slack for look-around definitions. Callbacks x partial lexing: on the callbacks family (decisions are functions of the matched text) committed items with payloads / error codes and the callback invocations must be a leading run of the one-shot ones, the rest re-lexes, chunked history for bump-free definitions.", "Trusted: the subject itself for (a),(b),(d); regex-automata per-pattern DFAs for the determinedness computation (c).", "7/C07"),
 "C08": ("vgraph", "property-based testing with a product-automaton oracle: breadth-first walk of the product of per-pattern reference matchers computing top-priority tie sets; accept/reject and reported sets compared",
         "Exploration over thousands of overlap-dense definitions; both verdicts frequent (about 30% rejected).", REF, "7/C08"),
 "C09": ("vgraph", "property-based testing: captured leaf priority vs the statement's rule on the harness' own parse, cross-checked by a shortest-path (0-1 BFS) computation of the minimum char count on the pattern DFA; literal/regex pair consequence; explicit-override pairs with priorities up to usize::MAX; whole definitions (every pattern one leaf with its own priority), incl. the definitions harvested from the repository",
         "Exploration over generated patterns (str/bytes, tokens, skips, explicit priorities) and generated (literal, regex matching it) pairs.", REF, "7/C09"),
 "C10": ("vgraph", "property-based testing: literal family with metacharacters / cased non-ASCII / arbitrary bytes, case-toggled inputs; oracle = exact bytes or regex crate language of the harness-escaped literal under (?i); flag-less twin for 'nothing else changes'",
         "Exploration (tier G on the captured graph).", REF, "7/C10"),
 "C11": ("vgraph", "property-based + metamorphic testing: subpattern DAGs rendered with references and AST-inlined; reference lexer from the inlined text; generate() equality with the inlined definition; planted undefined/forward references must be rejected",
         "Exploration (tier G).", REF, "7/C11"),
 "C12": ("subjects", "differential (twin) property testing on compiled lexers: every str-mode subject is compiled a second time with utf8 = false in the same module; Ok tokens+spans and error byte sets compared on valid UTF-8 inputs",
         "Exploration in 4 configurations: twin-against-twin on valid UTF-8 for every str-mode core and subpattern subject; byte-mode subjects on inputs that are not valid UTF-8 are judged against the reference (Unicode-aware patterns never match across invalid sequences); acceptance clause shared with C04 (tier G, DFA x UTF-8 validator) plus the relation 'accepted in str mode => accepted with utf8 = false'.", "Trusted: the two compiled twins for the first clause; regex-automata DFAs for the byte-mode and acceptance clauses.", "7/C12"),
 "C13": ("subjects", "model-based property testing on compiled lexers: callbacks of every documented return type with pure decision functions; model = documented table applied to the stream of a callback-free twin (one unit variant per leaf) restarted at model positions; callback and error-callback logs compared; Skip-vs-skip-pattern twin",
         "Exploration in 4 configurations over generated callback definitions (6 attachment forms (function path or inline closure, positional or callback =, closure bodies that start with a parenthesised group or are a block), bumps, custom error type with From, optional error callback).", "Trusted: the callback-free twin of the same build for pattern selection (agreement with the regex language is C01's business).", "7/C13"),
 "C14": ("apicheck", "model-based (stateful) property testing: proptest op histories interpreted against the real Lexer and a reference model in lock-step; next() expected from a fresh lexer over the suffix",
         "Exploration over histories of {next, bump, clone, morph, spanned, accessors, extras} on fixed definition pairs (str and bytes, ordinary and partial) in 6 builds (debug/release x default/forbid_unsafe, plus two builds with the state-machine code generator).", "Trusted: fixed hand-written definitions; fresh-lexer-over-suffix as the meaning of next().", "7/C14"),
 "C15": ("apicheck", "property-based testing with an arithmetic model (checked addition + boundary predicate) of bump, under catch_unwind, in debug/release x default/forbid_unsafe (+ two state-machine-generator builds) + ASan builds",
         "Exploration over boundary-focused bump amounts incl. wrap-around, repeated bumps and use after a caught panic; sources include chars with 0x80/0xBF bytes in every encoding position; thorough re-runs a share of the histories under Miri (an invalid str or out-of-range slice is undefined behaviour there).", "Trusted: catch_unwind observes the panic; span() is read before slice()/remainder() are called.", "7/C15"),
 "C16": ("vgraph+cli", "repeated-run differential: generate() and the captured graph on freshly spawned threads and in child processes, logos-cli (both code generators) run repeatedly and --check'ed; byte equality",
         "Exploration; hash seeds are sampled per thread/process.", "Trusted: std RandomState gives fresh keys per thread/process.", "7/C16"),
 "C17": ("vgraph+cli", "property-based + model-based testing of the logos-cli binary: generated enum sources, syn-computed expected enum, generate() for the impl, write/check/tamper histories against a file-state model",
         "Exploration over enum sources and file histories.", "Trusted: syn for the independent expected enum.", "7/C17"),
 "C18": ("vgraph", "metamorphic property testing: every permutation of named attribute arguments and dependency-respecting permutations of #[logos(...)] items vs the canonical order (acceptance and generate() equality)",
         "Exploration (tier G).", "Trusted: generate() string equality as lexer equivalence (sufficient, not necessary; skips reordering uses leaf multiset + automaton size).", "7/C18"),
 "C19": ("vgraph+rustc", "property-based fuzzing of the derive with structured attribute soup under catch_unwind (library path) and through rustc with the real proc-macro on stable (JSON diagnostics), plus constructively generated must-reject classes and the definition families of the other checks (lexing, subpattern, literal, conflict) under C19's oracle; type-parameter items derived in a child process (a crash of the process is a verdict); the enums harvested from the repository as written",
         "Exploration. No panic in either path (library under catch_unwind, real proc-macro through rustc); non-termination of a derive call (90 s watchdog) is a violation; must-reject => compile_error; library diagnostics reappear in rustc's output; accepted => output parses, graph invariants hold, and every definition of the compiled subject set builds in all four configurations.", "Trusted: rustc's 'proc-macro derive panicked' diagnostic as panic detector in tier P.", "7/C19"),
 "C20": ("subjects", "property-based testing with a read-trace hook: per attempt, read offsets monotone, reads linear in bytes examined, first read at the attempt start; compiled lexers in 4 configurations, adversarial stress family on long inputs",
         "Exploration over the core subject family (covering + random inputs) and a fixed stress family of nested/overlapping repetitions ((a*)*b, (c|cc)+d, (e|ef)(g|fgh)*i, k(.*l)?, keyword/identifier overlaps, escaped strings, callback skips) on long inputs (64 KiB linear shapes, 2 KiB quadratic shapes; thorough 256 KiB / 8 KiB).", "Trusted: the verif_hooks trace records every LexerInternal::read.", "7/C20"),
}
PENDING = {}

checks = []
na = []
for p in props:
    i = p["id"]
    if i in CLAIMED:
        eng, tech, text, note, ref = CLAIMED[i]
        checks.append({
            "property_id": i,
            "quick_cmd": f"./check {i} --tier quick",
            "thorough_cmd": f"./check {i} --tier thorough",
            "evidence_file": f"/verif/evidence/{i}.json",
            "replay_cmd_template": f"./check {i} --replay {{path}}",
            "engine": eng,
            "level_claimed": {"category": "exploration", "text": text, "design_ref": ref},
            "level_note": note,
            "technique": tech,
        })
    else:
        na.append({"property_id": i, "reason": PENDING.get(i, "no check in this revision")})

hooks = subprocess.check_output(["git", "-C", "/repo", "log", "--format=%h %s"], text=True).splitlines()
hook_commits = [l.split()[0] for l in hooks if l.split(" ", 1)[1].startswith("verif hook")]

m = {
 "version": 1,
 "setup_cmd": "./check --setup",
 "hooks": {
  "guard": "verif_hooks",
  "enable": "cargo features logos-codegen/verif_hooks (graph capture) and logos/verif_hooks (read trace); the harness crates enable them through path dependencies on /repo",
  "baseline_off_cmd": "cd /repo && cargo test --workspace --no-fail-fast --offline",
  "source_commits": hook_commits,
  "add_only": True,
 },
 "engines": [
  {"name": "vgraph", "path": "harness/vgraph", "serves_properties": ["C01", "C02", "C03", "C08", "C09", "C10", "C11", "C16", "C17", "C18", "C19"], "kind_free_text": "tier G/L/P: proptest-driven in-process checks linking logos-codegen (capture hook) and the reference model; drives logos-cli and rustc"},
  {"name": "subjects", "path": "harness/subjgen + harness/subject-rt (generated crates under work/subjects)", "serves_properties": ["C01", "C02", "C03", "C04", "C05", "C06", "C07", "C12", "C13", "C20"], "kind_free_text": "tier X: generated #[derive(Logos)] subjects compiled in 4 feature configurations, proptest drivers inside the compiled binary, build-against-build dumps"},
  {"name": "fuzz", "path": "fuzz", "serves_properties": ["C01", "C02", "C03", "C04", "C05", "C07", "C12", "C14", "C15", "C19", "C20"], "kind_free_text": "tier F (thorough only): cargo-fuzz / libFuzzer + ASan targets fuzz_lex (compiled subjects), fuzz_graph (fuzzer-decoded definitions, captured graph vs reference), fuzz_api, fuzz_derive with the property oracles inside the target"},
  {"name": "apicheck", "path": "harness/apicheck", "serves_properties": ["C05", "C14", "C15"], "kind_free_text": "tier A: fixed definitions, proptest histories, debug/release x default/forbid_unsafe, two state-machine-generator builds, ASan, Miri (thorough)"},
 ],
 "checks": checks,
 "not_applicable": na,
 "notes": "All checks: ./check <ID> [--tier quick|thorough] [--replay F]; seed from VERIF_SEED. Exit 2 = harness trouble/inconclusive, never a violation. Genuine defects found and repaired are listed in known_findings.json (status fixed).",
}
json.dump(m, open(os.path.join(ROOT, "MANIFEST.json"), "w"), indent=1)
print("claimed", len(checks), "pending", len(na))
