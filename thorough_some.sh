#!/bin/bash
# usage: thorough_some.sh <ID>...   runs the thorough check of the given properties once; one line per check
cd "$(dirname "$0")"; mkdir -p work
for id in "$@"; do
  S=$(date +%s); OUT=$(./check $id --tier thorough 2>work/thorough_some.err); RC=$?
  echo "$id thorough exit=$RC $(( $(date +%s) - S ))s $(echo "$OUT" | grep -c '^VIOLATION') violations"
  [ $RC -ne 0 ] && { echo "$OUT" | grep VIOLATION | head -3; tail -3 work/thorough_some.err; }
done
