#!/bin/bash
# usage: sweep.sh <seed>...   runs every quick check under each seed on the current tree; prints one line per check
cd "$(dirname "$0")"
for s in "$@"; do
  for id in C01 C02 C03 C04 C05 C06 C07 C08 C09 C10 C11 C12 C13 C14 C15 C16 C17 C18 C19 C20; do
    S=$(date +%s); OUT=$(VERIF_SEED=$s ./check $id 2>/tmp/sweep.err); RC=$?
    echo "seed=$s $id exit=$RC $(( $(date +%s) - S ))s"
    [ $RC -ne 0 ] && { echo "$OUT" | grep VIOLATION | head -3; tail -2 /tmp/sweep.err; }
  done
done
git checkout -- evidence/ 2>/dev/null
