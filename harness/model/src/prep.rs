//! Running the derive (library entry point with the capture hook) on a definition.

use std::panic::{catch_unwind, AssertUnwindSafe};

use logos_codegen::verif::{capture, Capture, GraphDump};
use proc_macro2::TokenStream;

use crate::reference::RefLexer;
use crate::spec::DefSpec;

/// Outcome of running the derive on Rust source.
pub enum Derived {
    Panicked(String),
    Done(Capture),
}

/// Progress bookkeeping for the derive watchdog (vgraph): number of derive calls started and the
/// source currently being derived.
pub static DERIVE_CALLS: std::sync::atomic::AtomicU64 = std::sync::atomic::AtomicU64::new(0);
/// number of derive calls currently running (threads of C16 may overlap)
pub static DERIVE_IN_FLIGHT: std::sync::atomic::AtomicU64 = std::sync::atomic::AtomicU64::new(0);
pub static DERIVE_CURRENT: std::sync::Mutex<Option<String>> = std::sync::Mutex::new(None);

pub fn derive_src(src: &str) -> Result<Derived, String> {
    DERIVE_CALLS.fetch_add(1, std::sync::atomic::Ordering::Relaxed);
    if let Ok(mut c) = DERIVE_CURRENT.try_lock() {
        *c = Some(src.to_string());
    }
    struct InFlight;
    impl Drop for InFlight {
        fn drop(&mut self) {
            DERIVE_IN_FLIGHT.fetch_sub(1, std::sync::atomic::Ordering::Relaxed);
        }
    }
    DERIVE_IN_FLIGHT.fetch_add(1, std::sync::atomic::Ordering::Relaxed);
    let _guard = InFlight;
    let ts: TokenStream = src.parse().map_err(|e| format!("harness rendered unparsable Rust: {e}"))?;
    match catch_unwind(AssertUnwindSafe(|| capture(ts))) {
        Ok(c) => Ok(Derived::Done(c)),
        Err(p) => {
            let msg = if let Some(s) = p.downcast_ref::<String>() {
                s.clone()
            } else if let Some(s) = p.downcast_ref::<&str>() {
                s.to_string()
            } else {
                "non-string panic".into()
            };
            Ok(Derived::Panicked(msg))
        }
    }
}

/// All `compile_error!("...")` messages in a generated token string.
pub fn compile_errors(output: &str) -> Vec<String> {
    let mut out = Vec::new();
    let Ok(ts) = output.parse::<TokenStream>() else { return vec!["<unparsable output>".into()] };
    fn walk(ts: TokenStream, out: &mut Vec<String>) {
        let v: Vec<proc_macro2::TokenTree> = ts.into_iter().collect();
        let mut i = 0;
        while i < v.len() {
            match &v[i] {
                proc_macro2::TokenTree::Ident(id) if id == "compile_error" => {
                    if let (Some(proc_macro2::TokenTree::Punct(p)), Some(proc_macro2::TokenTree::Group(g))) = (v.get(i + 1), v.get(i + 2)) {
                        if p.as_char() == '!' {
                            let s = g.stream().to_string();
                            let msg = syn::parse_str::<syn::LitStr>(&s).map(|l| l.value()).unwrap_or(s);
                            out.push(msg);
                            i += 3;
                            continue;
                        }
                    }
                }
                proc_macro2::TokenTree::Group(g) => walk(g.stream(), out),
                _ => {}
            }
            i += 1;
        }
    }
    walk(ts, &mut out);
    out
}

pub struct Prepared {
    pub rust: String,
    pub output: String,
    pub graph: GraphDump,
    pub reflex: RefLexer,
    pub prio: Vec<usize>,
}

pub enum PrepError {
    /// derive panicked
    Panic(String),
    /// derive emitted compile errors (definition rejected)
    Rejected(Vec<String>, Option<GraphDump>),
    /// the reference could not be built (pattern outside what the reference supports / too large)
    NoReference(String),
    /// harness inconsistency
    Harness(String),
}

pub fn render(def: &DefSpec) -> String {
    def.render_enum("T", "#[derive(Logos)]", &[])
}

pub fn prepare(def: &DefSpec) -> Result<Prepared, PrepError> {
    let rust = render(def);
    let cap = match derive_src(&rust).map_err(PrepError::Harness)? {
        Derived::Panicked(m) => return Err(PrepError::Panic(m)),
        Derived::Done(c) => c,
    };
    let errs = compile_errors(&cap.output);
    if !errs.is_empty() {
        return Err(PrepError::Rejected(errs, cap.graph));
    }
    let Some(graph) = cap.graph else {
        return Err(PrepError::Harness("accepted definition without a graph".into()));
    };
    if !graph.errors.is_empty() {
        return Err(PrepError::Harness("accepted definition with graph errors".into()));
    }
    if graph.leaves.len() != def.n_leaves() {
        return Err(PrepError::Harness(format!("leaf count {} != spec leaves {}", graph.leaves.len(), def.n_leaves())));
    }
    let reflex = RefLexer::build(def).map_err(PrepError::NoReference)?;
    let prio = graph.leaves.iter().map(|l| l.priority).collect();
    Ok(Prepared { rust, output: cap.output, graph, reflex, prio })
}

/// Raw outcome of the derive on a definition, whatever the verdict.
pub struct DeriveOut {
    pub rust: String,
    pub panic: Option<String>,
    pub output: String,
    pub errors: Vec<String>,
    pub graph: Option<GraphDump>,
}

pub fn derive_rust(rust: String) -> DeriveOut {
    match derive_src(&rust) {
        Err(e) => DeriveOut { rust, panic: Some(format!("harness: {e}")), output: String::new(), errors: vec![], graph: None },
        Ok(Derived::Panicked(m)) => DeriveOut { rust, panic: Some(m), output: String::new(), errors: vec![], graph: None },
        Ok(Derived::Done(c)) => {
            let errors = compile_errors(&c.output);
            DeriveOut { rust, panic: None, output: c.output, errors, graph: c.graph }
        }
    }
}

pub fn derive_def(def: &DefSpec) -> DeriveOut {
    derive_rust(render(def))
}

/// Token-level normal form of generated code: punctuation spacing (`> ;` vs `>;`, an artefact of how
/// the surrounding attribute was written) is ignored; everything else is kept.
pub fn normalize_tokens(output: &str) -> String {
    fn walk(ts: TokenStream, out: &mut String) {
        for tt in ts {
            match tt {
                proc_macro2::TokenTree::Group(g) => {
                    let (o, c) = match g.delimiter() {
                        proc_macro2::Delimiter::Parenthesis => ("(", ")"),
                        proc_macro2::Delimiter::Brace => ("{", "}"),
                        proc_macro2::Delimiter::Bracket => ("[", "]"),
                        proc_macro2::Delimiter::None => ("", ""),
                    };
                    out.push_str(o);
                    out.push(' ');
                    walk(g.stream(), out);
                    out.push_str(c);
                    out.push(' ');
                }
                proc_macro2::TokenTree::Punct(p) => {
                    out.push(p.as_char());
                    out.push(' ');
                }
                other => {
                    out.push_str(&other.to_string());
                    out.push(' ');
                }
            }
        }
    }
    match output.parse::<TokenStream>() {
        Ok(ts) => {
            let mut s = String::new();
            walk(ts, &mut s);
            s
        }
        Err(_) => output.to_string(),
    }
}
