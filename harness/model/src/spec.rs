//! Definition specification: the canonical, serialisable form of a generated lexer definition.
//! Replay files hold a `DefSpec`; everything else (Rust source, reference lexer) is derived from it.

use serde::{Deserialize, Serialize};

/// A Rust literal used as the source of a pattern: `"..."` or `b"..."`.
#[derive(Clone, Debug, PartialEq, Eq, Serialize, Deserialize, Hash)]
pub struct LitSpec {
    /// true: byte-string literal (`b"..."`), value = `raw`; false: str literal, value = `text`
    pub bytes: bool,
    #[serde(default)]
    pub text: String,
    #[serde(default)]
    pub raw: Vec<u8>,
}

impl LitSpec {
    pub fn str(text: impl Into<String>) -> Self {
        LitSpec { bytes: false, text: text.into(), raw: Vec::new() }
    }
    pub fn bytes(raw: impl Into<Vec<u8>>) -> Self {
        LitSpec { bytes: true, text: String::new(), raw: raw.into() }
    }
    /// The value of the literal as bytes.
    pub fn value(&self) -> Vec<u8> {
        if self.bytes { self.raw.clone() } else { self.text.as_bytes().to_vec() }
    }
    /// Render as a Rust literal token.
    pub fn rust(&self) -> String {
        if self.bytes {
            let mut s = String::from("b\"");
            for &b in &self.raw {
                match b {
                    b'"' => s.push_str("\\\""),
                    b'\\' => s.push_str("\\\\"),
                    0x20..=0x7e => s.push(b as char),
                    _ => s.push_str(&format!("\\x{b:02X}")),
                }
            }
            s.push('"');
            s
        } else {
            let mut s = String::from("\"");
            for c in self.text.chars() {
                match c {
                    '"' => s.push_str("\\\""),
                    '\\' => s.push_str("\\\\"),
                    '\n' => s.push_str("\\n"),
                    '\r' => s.push_str("\\r"),
                    '\t' => s.push_str("\\t"),
                    '\0' => s.push_str("\\0"),
                    c if (c as u32) < 0x20 || c as u32 == 0x7f => {
                        s.push_str(&format!("\\u{{{:x}}}", c as u32))
                    }
                    c => s.push(c),
                }
            }
            s.push('"');
            s
        }
    }
    /// The literal read as a regex source with the harness' own conversion:
    /// str literal = its text (Unicode mode); byte literal = ASCII bytes verbatim, others `\xHH`
    /// (byte mode). Returns (pattern text, unicode flag).
    pub fn as_regex(&self) -> (String, bool) {
        if self.bytes {
            let mut s = String::new();
            for &b in &self.raw {
                if b < 0x80 {
                    s.push(b as char);
                } else {
                    s.push_str(&format!("\\x{b:02X}"));
                }
            }
            (s, false)
        } else {
            (self.text.clone(), true)
        }
    }
}

#[derive(Clone, Copy, Debug, PartialEq, Eq, Serialize, Deserialize, Hash)]
pub enum PatKind {
    Token,
    Regex,
}

/// How a callback is attached and what it returns (C13).
#[derive(Clone, Debug, PartialEq, Eq, Serialize, Deserialize, Hash)]
pub struct CbSpec {
    /// return type selector, see `subject` renderer
    pub ret: u8,
    /// decision salt
    pub salt: u32,
    /// chars of the remainder to bump (0..=2)
    pub bump: u8,
    /// attachment form: 0 positional fn label, 1 inline closure positional, 2 `callback = label`, 3 `callback = closure`,
    /// 4 / 5 closure whose body starts with a group (positional / named), 6 `callback=|lex| ..` written without blanks
    pub form: u8,
}

#[derive(Clone, Debug, PartialEq, Eq, Serialize, Deserialize, Hash)]
pub struct PatSpec {
    pub kind: PatKind,
    pub lit: LitSpec,
    /// C11: the same pattern with subpattern references inlined by AST substitution
    #[serde(default, skip_serializing_if = "Option::is_none")]
    pub inlined: Option<LitSpec>,
    #[serde(default)]
    pub ignore_case: bool,
    #[serde(default)]
    pub allow_greedy: bool,
    #[serde(default, skip_serializing_if = "Option::is_none")]
    pub priority: Option<usize>,
    #[serde(default, skip_serializing_if = "Option::is_none")]
    pub callback: Option<CbSpec>,
}

impl PatSpec {
    pub fn token(lit: LitSpec) -> Self {
        PatSpec { kind: PatKind::Token, lit, inlined: None, ignore_case: false, allow_greedy: false, priority: None, callback: None }
    }
    pub fn regex(lit: LitSpec) -> Self {
        PatSpec { kind: PatKind::Regex, lit, inlined: None, ignore_case: false, allow_greedy: false, priority: None, callback: None }
    }
    /// Named arguments rendered in canonical order.
    pub fn args(&self) -> String {
        self.args_cb(None)
    }

    /// Named arguments in canonical order with an optional `callback = ...`.
    pub fn args_cb(&self, callback: Option<&str>) -> String {
        let mut s = String::new();
        if let Some(p) = self.priority {
            s.push_str(&format!(", priority = {p}"));
        }
        if self.allow_greedy {
            s.push_str(", allow_greedy = true");
        }
        if let Some(cb) = callback {
            s.push_str(&format!(", callback = {cb}"));
        }
        // parenthesised argument last (order independence is C18's business)
        if self.ignore_case {
            s.push_str(", ignore(case)");
        }
        s
    }
}

#[derive(Clone, Debug, PartialEq, Eq, Serialize, Deserialize, Hash)]
pub struct SubSpec {
    pub name: String,
    pub lit: LitSpec,
    /// body with nested references inlined (C11 twin)
    #[serde(default, skip_serializing_if = "Option::is_none")]
    pub inlined: Option<LitSpec>,
}

/// A lexer definition. Leaf order (as logos builds it): all skips in order, then the patterns of
/// each variant in order.
#[derive(Clone, Debug, PartialEq, Eq, Serialize, Deserialize, Hash)]
pub struct DefSpec {
    pub utf8: bool,
    #[serde(default)]
    pub subpatterns: Vec<SubSpec>,
    /// skip patterns (kind is ignored: always regex semantics)
    #[serde(default)]
    pub skips: Vec<PatSpec>,
    /// variants, each with ≥ 1 pattern
    pub variants: Vec<Vec<PatSpec>>,
}

impl DefSpec {
    /// All patterns in leaf order, with (is_skip, variant index).
    pub fn leaves(&self) -> Vec<(&PatSpec, Option<usize>)> {
        let mut out = Vec::new();
        for s in &self.skips {
            out.push((s, None));
        }
        for (vi, v) in self.variants.iter().enumerate() {
            for p in v {
                out.push((p, Some(vi)));
            }
        }
        out
    }

    pub fn n_leaves(&self) -> usize {
        self.skips.len() + self.variants.iter().map(|v| v.len()).sum::<usize>()
    }

    /// Render the enum (attributes + variants) as Rust source. `name` is the enum identifier,
    /// `extra_logos` extra items for the `#[logos(...)]` attribute, `derive_line` e.g.
    /// `#[derive(Logos, Debug, Clone, Copy, PartialEq)]`.
    pub fn render_enum(&self, name: &str, derive_line: &str, extra_logos: &[String]) -> String {
        self.render_with(name, derive_line, extra_logos, self.utf8, &|_, _| None)
    }

    /// Like `render_enum`, with the mode overridable and a callback source per leaf
    /// (`cb(leaf index, pattern)` -> callback expression).
    pub fn render_with(
        &self,
        name: &str,
        derive_line: &str,
        extra_logos: &[String],
        utf8: bool,
        cb: &dyn Fn(usize, &PatSpec) -> Option<String>,
    ) -> String {
        let mut s = String::new();
        let mut leaf = 0usize;
        s.push_str(derive_line);
        s.push('\n');
        if !utf8 {
            s.push_str("#[logos(utf8 = false)]\n");
        }
        for e in extra_logos {
            s.push_str(&format!("#[logos({e})]\n"));
        }
        for sp in &self.subpatterns {
            s.push_str(&format!("#[logos(subpattern {} = {})]\n", sp.name, sp.lit.rust()));
        }
        for sk in &self.skips {
            let c = cb(leaf, sk);
            leaf += 1;
            let args = sk.args_cb(c.as_deref());
            if args.is_empty() {
                s.push_str(&format!("#[logos(skip {})]\n", sk.lit.rust()));
            } else {
                s.push_str(&format!("#[logos(skip({}{}))]\n", sk.lit.rust(), args));
            }
        }
        s.push_str(&format!("pub enum {name} {{\n"));
        for (vi, v) in self.variants.iter().enumerate() {
            for p in v {
                let attr = match p.kind {
                    PatKind::Token => "token",
                    PatKind::Regex => "regex",
                };
                let c = cb(leaf, p);
                leaf += 1;
                s.push_str(&format!("    #[{attr}({}{})]\n", p.lit.rust(), p.args_cb(c.as_deref())));
            }
            s.push_str(&format!("    V{vi},\n"));
        }
        s.push_str("}\n");
        s
    }
}
