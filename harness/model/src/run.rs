//! Shared run bookkeeping: arguments, evidence, replay files, violation reporting.

use std::collections::{BTreeMap, HashSet};
use std::path::PathBuf;
use std::time::Instant;

use serde_json::{json, Value};

/// Root of the verification tree (the directory holding `check`); VERIF_ROOT overrides /verif so that a
/// snapshot of the tree can run beside the live one.
pub fn root() -> PathBuf {
    PathBuf::from(std::env::var("VERIF_ROOT").unwrap_or_else(|_| "/verif".to_string()))
}

pub struct Args {
    pub prop: String,
    pub seed: u64,
    pub tier: String,
    pub cases: u32,
    pub evidence: Option<PathBuf>,
    pub replay_dir: PathBuf,
    pub replay: Option<PathBuf>,
    pub extra: BTreeMap<String, String>,
}

impl Args {
    pub fn parse() -> Args {
        let mut a = Args {
            prop: String::new(),
            seed: 0,
            tier: "quick".into(),
            cases: 0,
            evidence: None,
            replay_dir: root().join("work/replays"),
            replay: None,
            extra: BTreeMap::new(),
        };
        let mut it = std::env::args().skip(1);
        while let Some(x) = it.next() {
            match x.as_str() {
                "--seed" => a.seed = it.next().unwrap().parse().unwrap(),
                "--tier" => a.tier = it.next().unwrap(),
                "--cases" => a.cases = it.next().unwrap().parse().unwrap(),
                "--evidence" => a.evidence = Some(it.next().unwrap().into()),
                "--replay-dir" => a.replay_dir = it.next().unwrap().into(),
                "--replay" => a.replay = Some(it.next().unwrap().into()),
                s if s.starts_with("--") => {
                    let v = it.next().unwrap_or_default();
                    a.extra.insert(s[2..].to_string(), v);
                }
                s => a.prop = s.to_string(),
            }
        }
        a
    }
    pub fn thorough(&self) -> bool {
        self.tier == "thorough"
    }
    pub fn extra_u64(&self, k: &str, d: u64) -> u64 {
        self.extra.get(k).and_then(|v| v.parse().ok()).unwrap_or(d)
    }
}

pub struct Run {
    pub prop: String,
    pub tier: String,
    pub seed: u64,
    pub t0: Instant,
    pub evaluations: u64,
    pub nontrivial: HashSet<u64>,
    pub samples: Vec<Value>,
    pub max_samples: usize,
    pub counters: BTreeMap<String, u64>,
    pub rule: String,
    pub assumptions: Vec<String>,
    pub violations: u64,
    pub known: Vec<String>,
    /// counting is frozen while proptest shrinks
    pub frozen: bool,
}

impl Run {
    pub fn new(prop: &str, tier: &str, seed: u64, rule: &str) -> Run {
        Run {
            prop: prop.into(),
            tier: tier.into(),
            seed,
            t0: Instant::now(),
            evaluations: 0,
            nontrivial: HashSet::new(),
            samples: Vec::new(),
            max_samples: 6,
            counters: BTreeMap::new(),
            rule: rule.into(),
            assumptions: Vec::new(),
            violations: 0,
            known: Vec::new(),
            frozen: false,
        }
    }
    pub fn count(&mut self, k: &str, n: u64) {
        if !self.frozen {
            *self.counters.entry(k.to_string()).or_insert(0) += n;
        }
    }
    pub fn eval(&mut self, n: u64) {
        if !self.frozen {
            self.evaluations += n;
        }
    }
    pub fn nontrivial(&mut self, key: u64) {
        if !self.frozen {
            self.nontrivial.insert(key);
        }
    }
    pub fn sample(&mut self, v: impl FnOnce() -> Value) {
        if !self.frozen && self.samples.len() < self.max_samples {
            self.samples.push(v());
        }
    }
    pub fn evidence_json(&self) -> Value {
        json!({
            "property_id": self.prop,
            "tier": self.tier,
            "seed": self.seed,
            "level": "exploration",
            "coverage": {
                "evaluations": self.evaluations,
                "distinct_nontrivial": self.nontrivial.len(),
                "rule": self.rule,
                "samples": self.samples,
                "counters": self.counters,
                "known_findings_reported": self.known,
            },
            "assumptions": self.assumptions,
            "wall_s": self.t0.elapsed().as_secs_f64(),
            "violations": self.violations,
        })
    }
    pub fn write_evidence(&self, path: &Option<PathBuf>) {
        if let Some(p) = path {
            if let Some(d) = p.parent() {
                let _ = std::fs::create_dir_all(d);
            }
            std::fs::write(p, serde_json::to_string_pretty(&self.evidence_json()).unwrap()).expect("write evidence");
        }
    }
}

/// Write a replay file and print the VIOLATION line. Returns the path.
pub fn report_violation(prop: &str, replay_dir: &PathBuf, replay: &Value) -> PathBuf {
    let _ = std::fs::create_dir_all(replay_dir);
    let body = serde_json::to_string_pretty(replay).unwrap();
    let h = crate::fnv(body.as_bytes());
    let path = replay_dir.join(format!("{prop}-{h:016x}.json"));
    std::fs::write(&path, body).expect("write replay");
    println!("VIOLATION property={prop} replay={}", path.display());
    path
}

use proptest::strategy::Strategy;
use proptest::test_runner::{Config, RngSeed, TestCaseError, TestError, TestRunner};
use std::cell::RefCell;

pub enum DriveResult<T> {
    Pass,
    /// minimal failing value after shrinking
    Fail(T),
    Abort(String),
}

/// Run `cases` generated values through `f`; counting into `run` stops at the first failure (the
/// closure is re-run during shrinking). `f` returns Err(reason) on a property violation.
pub fn drive<T: std::fmt::Debug, S: Strategy<Value = T>>(
    strat: &S,
    cases: u32,
    seed: u64,
    shrink_iters: u32,
    run: &mut Run,
    f: impl Fn(&T, &mut Run) -> Result<(), String>,
) -> DriveResult<T> {
    let mut runner = TestRunner::new(Config {
        cases,
        rng_seed: RngSeed::Fixed(seed),
        failure_persistence: None,
        max_shrink_iters: shrink_iters,
        max_global_rejects: 1_000_000,
        verbose: 0,
        ..Config::default()
    });
    let cell = RefCell::new(run);
    let result = runner.run(strat, |case| {
        let mut guard = cell.borrow_mut();
        let run: &mut Run = &mut guard;
        match f(&case, run) {
            Ok(()) => Ok(()),
            Err(m) => {
                run.frozen = true;
                Err(TestCaseError::fail(m))
            }
        }
    });
    let run = cell.into_inner();
    match result {
        Ok(()) => DriveResult::Pass,
        Err(TestError::Fail(_, v)) => {
            run.frozen = true;
            DriveResult::Fail(v)
        }
        Err(TestError::Abort(m)) => DriveResult::Abort(m.to_string()),
    }
}
