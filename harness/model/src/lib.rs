pub mod cover;
pub mod engine;
pub mod gen;
pub mod graph;
pub mod harvest;
pub mod judge;
pub mod prep;
pub mod reference;
pub mod run;
pub mod set;
pub mod soup;
pub mod spec;

use serde::{Deserialize, Serialize};

/// One lexer item as observed from a subject: `kind` = Some(id) for Ok (leaf id for the graph
/// interpreter, variant id for compiled lexers), None for Err.
#[derive(Clone, Copy, Debug, PartialEq, Eq, Serialize, Deserialize, Hash)]
pub struct Item {
    pub kind: Option<usize>,
    pub start: usize,
    pub end: usize,
}

pub fn hex(b: &[u8]) -> String {
    b.iter().map(|x| format!("{x:02x}")).collect()
}

pub fn unhex(s: &str) -> Vec<u8> {
    (0..s.len() / 2).map(|i| u8::from_str_radix(&s[2 * i..2 * i + 2], 16).unwrap()).collect()
}

/// Printable rendering of bytes for evidence samples.
pub fn show(b: &[u8]) -> String {
    match std::str::from_utf8(b) {
        Ok(s) => format!("{s:?}"),
        Err(_) => format!("hex:{}", hex(b)),
    }
}

pub fn fnv(data: &[u8]) -> u64 {
    let mut h = 0xcbf29ce484222325u64;
    for &b in data {
        h ^= b as u64;
        h = h.wrapping_mul(0x100000001b3);
    }
    h
}
