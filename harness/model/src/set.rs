//! The generated subject set shared by `subjgen` (writer) and the compiled runner (reader).

use serde::{Deserialize, Serialize};

use crate::spec::DefSpec;

#[derive(Clone, Debug, Serialize, Deserialize)]
pub struct SubjectDef {
    pub family: String,
    pub def: DefSpec,
    /// skip patterns carry a logging callback (observation of skipped regions, C03)
    pub skip_log: bool,
}

#[derive(Clone, Debug, Serialize, Deserialize)]
pub struct SubjectSet {
    pub seed: u64,
    pub tier: String,
    pub defs: Vec<SubjectDef>,
}

pub const SKIP_LOG_CB: &str = "|lex| { let sp = lex.span(); lex.extras.skips.push((sp.start, sp.end)); }";

/// Rust source of the module of one subject.
pub fn render_module(idx: usize, sd: &SubjectDef) -> String {
    let mut s = String::new();
    s.push_str(&format!("pub mod d{idx} {{\n    #![allow(dead_code, unused_imports)]\n    use logos::Logos;\n    use subject_rt::{{Log, Mode, Obs, Src, Subject, Tok}};\n\n"));
    let skip_log = sd.skip_log;
    let body = sd.def.render_with(
        "T",
        "#[derive(Logos, Debug, Clone, Copy, PartialEq)]",
        &["extras = Log".to_string()],
        sd.def.utf8,
        &|leaf, _p| if skip_log && leaf < sd.def.skips.len() { Some(SKIP_LOG_CB.to_string()) } else { None },
    );
    for line in body.lines() {
        s.push_str("    ");
        s.push_str(line);
        s.push('\n');
    }
    s.push_str("    impl Tok for T { fn id(&self) -> usize { *self as usize } }\n");
    s.push_str("    pub struct S;\n    impl Subject for S {\n");
    s.push_str(&format!("        fn index(&self) -> usize {{ {idx} }}\n"));
    s.push_str("        fn lex(&self, which: u8, src: &[u8], mode: Mode) -> Obs {\n            match which {\n");
    s.push_str("                0 => subject_rt::lex_generic::<T>(<<T as Logos<'_>>::Source as Src>::from_bytes(src), mode),\n");
    s.push_str("                _ => unreachable!(),\n            }\n        }\n    }\n}\n");
    s
}
