//! The generated subject set shared by `subjgen` (writer) and the compiled runner (reader).

use serde::{Deserialize, Serialize};

use crate::spec::DefSpec;

#[derive(Clone, Debug, Serialize, Deserialize)]
pub struct SubjectDef {
    pub family: String,
    pub def: DefSpec,
    /// skip patterns carry a logging callback (observation of skipped regions, C03)
    pub skip_log: bool,
    /// callbacks family: per leaf, whether the variant holds a value (skips: false)
    #[serde(default)]
    pub has_value: Vec<bool>,
    /// callbacks family: an error callback is configured
    #[serde(default)]
    pub error_cb: bool,
    /// str-mode definition whose utf8 = false rendering is accepted too: the module holds the twin `T2` (C12)
    #[serde(default)]
    pub twin: bool,
}

#[derive(Clone, Debug, Serialize, Deserialize)]
pub struct SubjectSet {
    pub seed: u64,
    pub tier: String,
    pub defs: Vec<SubjectDef>,
}

pub const SKIP_LOG_CB: &str = "|lex| { let sp = lex.span(); lex.extras.skips.push((sp.start, sp.end)); }";

/// Outcome options per callback return type: list of outcome codes (0 Emit, 1 Skip, 2 DefaultErr, 3 CustomErr).
pub fn ret_options(ret: u8) -> &'static [u8] {
    match ret {
        0 => &[0],
        1 => &[0, 2],
        2 => &[0, 3],
        3 => &[1],
        4 => &[1, 3],
        5 => &[0, 1],
        6 => &[0, 1, 3],
        7 => &[0],
        8 => &[0, 3],
        9 => &[0, 1],
        10 => &[0, 1, 3],
        11 => &[0],
        12 => &[0, 2],
        13 => &[0, 3],
        14 => &[0, 1],
        15 => &[0, 1, 3],
        16 => &[1],
        17 => &[1],
        18 => &[1, 3],
        19 => &[1, 3],
        _ => &[0],
    }
}

/// returns the token itself (may emit another variant)
pub fn ret_is_token(ret: u8) -> bool {
    (7..=10).contains(&ret)
}

fn render_callback(leaf: usize, enum_name: &str, enum_ty: &str, ret: u8, salt: u32, bump: u8, first_unit: Option<usize>, own_variant: Option<usize>) -> String {
    let nopts = ret_options(ret).len();
    // the variant a token-returning callback emits: the first unit variant of the enum (may differ from its own)
    let tokv = first_unit.or(own_variant).unwrap_or(0);
    let (ty, arms): (String, Vec<String>) = match ret {
        0 => ("()".into(), vec!["()".into()]),
        1 => ("bool".into(), vec!["true".into(), "false".into()]),
        2 => ("Result<(), Ecb>".into(), vec!["Ok(())".into(), "Err(Ecb(v))".into()]),
        3 => ("logos::Skip".into(), vec!["logos::Skip".into()]),
        4 => ("Result<logos::Skip, Ecb>".into(), vec!["Ok(logos::Skip)".into(), "Err(Ecb(v))".into()]),
        5 => ("logos::Filter<()>".into(), vec!["logos::Filter::Emit(())".into(), "logos::Filter::Skip".into()]),
        6 => ("logos::FilterResult<(), Ecb>".into(), vec!["logos::FilterResult::Emit(())".into(), "logos::FilterResult::Skip".into(), "logos::FilterResult::Error(Ecb(v))".into()]),
        7 => (enum_ty.into(), vec![format!("{enum_name}::V{tokv}")]),
        8 => (format!("Result<{enum_ty}, Ecb>"), vec![format!("Ok({enum_name}::V{tokv})"), "Err(Ecb(v))".into()]),
        9 => (format!("logos::Filter<{enum_ty}>"), vec![format!("logos::Filter::Emit({enum_name}::V{tokv})"), "logos::Filter::Skip".into()]),
        10 => (format!("logos::FilterResult<{enum_ty}, Ecb>"), vec![format!("logos::FilterResult::Emit({enum_name}::V{tokv})"), "logos::FilterResult::Skip".into(), "logos::FilterResult::Error(Ecb(v))".into()]),
        11 => ("u64".into(), vec!["v".into()]),
        12 => ("Option<u64>".into(), vec!["Some(v)".into(), "None".into()]),
        13 => ("Result<u64, Ecb>".into(), vec!["Ok(v)".into(), "Err(Ecb(v))".into()]),
        14 => ("logos::Filter<u64>".into(), vec!["logos::Filter::Emit(v)".into(), "logos::Filter::Skip".into()]),
        15 => ("logos::FilterResult<u64, Ecb>".into(), vec!["logos::FilterResult::Emit(v)".into(), "logos::FilterResult::Skip".into(), "logos::FilterResult::Error(Ecb(v))".into()]),
        16 => ("()".into(), vec!["()".into()]),
        17 => ("logos::Skip".into(), vec!["logos::Skip".into()]),
        18 => ("Result<(), Ecb>".into(), vec!["Ok(())".into(), "Err(Ecb(v))".into()]),
        _ => ("Result<logos::Skip, Ecb>".into(), vec!["Ok(logos::Skip)".into(), "Err(Ecb(v))".into()]),
    };
    let mut body = String::new();
    for (i, a) in arms.iter().enumerate() {
        if i + 1 == arms.len() {
            body.push_str(&format!("_ => {a}, "));
        } else {
            body.push_str(&format!("{i} => {a}, "));
        }
    }
    format!(
        "    #[allow(unused_variables)]\n    fn cb{leaf}<'s>(lex: &mut logos::Lexer<'s, {enum_ty}>) -> {ty} {{\n        let (c, v) = subject_rt::cb_common(lex, {leaf}, {salt}, {bump}, {nopts});\n        match c {{ {body}}}\n    }}\n"
    )
}

/// Rust source of the module of one subject.
pub fn render_module(idx: usize, sd: &SubjectDef) -> String {
    if sd.family == "callbacks" || sd.family == "stress-cb" {
        return render_callback_module(idx, sd);
    }
    let mut s = String::new();
    s.push_str(&format!("pub mod d{idx} {{\n    #![allow(dead_code, unused_imports)]\n    use logos::Logos;\n    use subject_rt::{{Log, Mode, Obs, Src, Subject, Tok}};\n\n"));
    let skip_log = sd.skip_log;
    let cb = |leaf: usize, _p: &crate::spec::PatSpec| if skip_log && leaf < sd.def.skips.len() { Some(SKIP_LOG_CB.to_string()) } else { None };
    let mut enums = vec![("T", sd.def.utf8)];
    if sd.def.utf8 && sd.twin {
        // bytes-mode twin of a str-mode definition (C12)
        enums.push(("T2", false));
    }
    for (name, utf8) in &enums {
        let body = sd.def.render_with(name, "#[derive(Logos, Debug, Clone, Copy, PartialEq)]", &["extras = Log".to_string()], *utf8, &cb);
        for line in body.lines() {
            s.push_str("    ");
            s.push_str(line);
            s.push('\n');
        }
        s.push_str(&format!("    impl Tok for {name} {{ fn id(&self) -> usize {{ *self as usize }} }}\n"));
    }
    s.push_str("    pub struct S;\n    impl Subject for S {\n");
    s.push_str(&format!("        fn index(&self) -> usize {{ {idx} }}\n"));
    s.push_str("        fn lex(&self, which: u8, src: &[u8], mode: Mode) -> Obs {\n            match which {\n");
    s.push_str("                0 => subject_rt::lex_generic::<T>(<<T as Logos<'_>>::Source as Src>::from_bytes(src), mode),\n");
    if sd.def.utf8 && sd.twin {
        s.push_str("                1 => subject_rt::lex_generic::<T2>(<<T2 as Logos<'_>>::Source as Src>::from_bytes(src), mode),\n");
    }
    s.push_str("                _ => unreachable!(),\n            }\n        }\n    }\n}\n");
    s
}

/// callbacks family: enum T with callbacks, twin T0 (callback-free, one unit variant per leaf,
/// skips visible), optional T1 (always-Skip callbacks replaced by skip patterns).
fn render_callback_module(idx: usize, sd: &SubjectDef) -> String {
    let def = &sd.def;
    let leaves = def.leaves();
    let nskips = def.skips.len();
    let mut s = String::new();
    s.push_str(&format!("pub mod d{idx} {{\n    #![allow(dead_code, unused_imports)]\n    use logos::Logos;\n    use subject_rt::{{Ecb, Log, Mode, Obs, Src, Subject, Tok, E}};\n\n"));
    let first_unit = (0..def.variants.len()).find(|&vi| !sd.has_value.get(nskips + vi).copied().unwrap_or(false));
    // value variants without a callback hold the matched slice: the enum then needs the source lifetime
    let slice_variant = |leaf: usize, p: &crate::spec::PatSpec| sd.has_value.get(leaf).copied().unwrap_or(false) && p.callback.is_none();
    let lt = leaves.iter().enumerate().any(|(leaf, (p, v))| v.is_some() && slice_variant(leaf, p));
    let slice_ty = if def.utf8 { "&'s str" } else { "&'s [u8]" };
    // one label-form callback of T is a user function that happens to be called `skip` (nothing else in the module has
    // that name; it is not `logos::skip`)
    let named_skip: Option<usize> = leaves.iter().enumerate().find(|(_, (p, _))| p.callback.as_ref().map(|c| c.form == 0 || c.form == 2).unwrap_or(false)).map(|(leaf, _)| leaf);
    let fn_name = |name: &str, leaf: usize| if name == "T" && named_skip == Some(leaf) { "skip".to_string() } else { format!("{}cb{leaf}", name.to_lowercase()) };
    for name in ["T", "T1"] {
        let ty = if lt { format!("{name}<'s>") } else { name.to_string() };
        for (leaf, (p, variant)) in leaves.iter().enumerate() {
            if let Some(cb) = &p.callback {
                s.push_str(&render_callback(leaf, name, &ty, cb.ret, cb.salt, cb.bump, first_unit, *variant).replace(&format!("fn cb{leaf}<"), &format!("fn {}<", fn_name(name, leaf))));
            }
        }
    }
    let err_attr = if sd.error_cb {
        "error(E, callback = |lex| { let sp = lex.span(); lex.extras.errs.push((sp.start, sp.end)); E(2_000_000 + (sp.start as u64) * 1000 + sp.end as u64) })".to_string()
    } else {
        "error = E".to_string()
    };
    // main enum T and T1
    for name in ["T", "T1"] {
        let _lower = name.to_lowercase();
        let mut body = String::new();
        body.push_str("#[derive(Logos, Debug, Clone, Copy, PartialEq)]\n");
        if !def.utf8 {
            body.push_str("#[logos(utf8 = false)]\n");
        }
        body.push_str(&format!("#[logos(extras = Log)]\n#[logos({err_attr})]\n"));
        let cbexpr = |leaf: usize, p: &crate::spec::PatSpec| -> Option<(String, u8)> {
            p.callback.as_ref().map(|cb| {
                let f = fn_name(name, leaf);
                // forms 4/5: inline closure whose body is an expression starting with a group (or is a block)
                let grouped = match cb.ret {
                    1 => format!("|lex| (lex.span().start <= lex.span().end) && {f}(lex)"),
                    12 => format!("|lex| (Some(0u64)).and({f}(lex))"),
                    _ => format!("|lex| {{ let r = {f}(lex); r }}"),
                };
                match cb.form {
                    0 => (f, 0),
                    1 => (format!("|lex| {f}(lex)"), 0),
                    2 => (format!("callback = {f}"), 1),
                    3 => (format!("callback = |lex| {f}(lex)"), 1),
                    4 => (grouped, 0),
                    5 => (format!("callback = {grouped}"), 1),
                    // form 6: the same named argument written without blanks (`=` glued to the closure's `|`)
                    _ => (format!("callback=|lex| {f}(lex)"), 1),
                }
            })
        };
        // T1: unit-variant patterns whose callback always skips (ret 3, no bump) become skip patterns
        let to_skip = |p: &crate::spec::PatSpec| name == "T1" && p.callback.as_ref().map(|c| c.ret == 3 && c.bump == 0).unwrap_or(false);
        let render_args = |leaf: usize, p: &crate::spec::PatSpec, allow_cb: bool| -> String {
            let mut a = String::new();
            let cb = if allow_cb { cbexpr(leaf, p) } else { None };
            if let Some((c, 0)) = &cb {
                a.push_str(&format!(", {c}"));
            }
            if let Some(pr) = p.priority {
                a.push_str(&format!(", priority = {pr}"));
            }
            if p.allow_greedy {
                a.push_str(", allow_greedy = true");
            }
            if let Some((c, 1)) = &cb {
                a.push_str(&format!(", {c}"));
            }
            if p.ignore_case {
                a.push_str(", ignore(case)");
            }
            a
        };
        for (leaf, (p, variant)) in leaves.iter().enumerate() {
            if variant.is_none() {
                body.push_str(&format!("#[logos(skip({}{}))]\n", p.lit.rust(), render_args(leaf, p, true)));
            } else if to_skip(p) {
                // only sound for #[regex]; a #[token] literal is rendered as an escaped regex elsewhere - keep tokens as they are
                if p.kind == crate::spec::PatKind::Regex {
                    body.push_str(&format!("#[logos(skip({}{}))]\n", p.lit.rust(), render_args(leaf, p, false)));
                }
            }
        }
        body.push_str(&format!("pub enum {name}{} {{\n", if lt { "<'s>" } else { "" }));
        for (leaf, (p, variant)) in leaves.iter().enumerate() {
            let Some(vi) = variant else { continue };
            let attr = if p.kind == crate::spec::PatKind::Token { "token" } else { "regex" };
            let skipped = to_skip(p) && p.kind == crate::spec::PatKind::Regex;
            if !skipped {
                body.push_str(&format!("    #[{attr}({}{})]\n", p.lit.rust(), render_args(leaf, p, true)));
            }
            // several patterns may be stacked on one variant: the variant line follows the last of them
            if leaves.get(leaf + 1).map(|(_, v)| *v == Some(*vi)).unwrap_or(false) {
                continue;
            }
            if slice_variant(leaf, p) {
                body.push_str(&format!("    V{vi}({slice_ty}),\n"));
            } else if sd.has_value.get(leaf).copied().unwrap_or(false) {
                body.push_str(&format!("    V{vi}(u64),\n"));
            } else {
                body.push_str(&format!("    V{vi},\n"));
            }
        }
        body.push_str("}\n");
        for line in body.lines() {
            s.push_str("    ");
            s.push_str(line);
            s.push('\n');
        }
        s.push_str(&format!("    impl{} Tok for {name}{} {{\n        fn id(&self) -> usize {{ match self {{", if lt { "<'s>" } else { "" }, if lt { "<'s>" } else { "" }));
        for (leaf, (_, variant)) in leaves.iter().enumerate() {
            if let Some(vi) = variant {
                if leaves.get(leaf + 1).map(|(_, v)| *v == Some(*vi)).unwrap_or(false) {
                    continue;
                }
                if sd.has_value.get(leaf).copied().unwrap_or(false) {
                    s.push_str(&format!(" {name}::V{vi}(_) => {vi},"));
                } else {
                    s.push_str(&format!(" {name}::V{vi} => {vi},"));
                }
            }
        }
        s.push_str(" } }\n        fn val(&self) -> u64 { match self {");
        for (leaf, (_, variant)) in leaves.iter().enumerate() {
            if let Some(vi) = variant {
                if slice_variant(leaf, leaves[leaf].0) {
                    s.push_str(&format!(" {name}::V{vi}(x) => subject_rt::slice_val(x),"));
                } else if sd.has_value.get(leaf).copied().unwrap_or(false) {
                    s.push_str(&format!(" {name}::V{vi}(x) => *x,"));
                }
            }
        }
        s.push_str(" _ => 0 } }\n    }\n");
    }
    // twin T0: every leaf a unit variant, same priorities, no callbacks
    {
        let mut body = String::new();
        body.push_str("#[derive(Logos, Debug, Clone, Copy, PartialEq)]\n");
        if !def.utf8 {
            body.push_str("#[logos(utf8 = false)]\n");
        }
        body.push_str("#[logos(extras = Log)]\npub enum T0 {\n");
        for (leaf, (p, variant)) in leaves.iter().enumerate() {
            let attr = if p.kind == crate::spec::PatKind::Token && variant.is_some() { "token" } else { "regex" };
            body.push_str(&format!("    #[{attr}({}{})]\n    P{leaf},\n", p.lit.rust(), p.args()));
        }
        body.push_str("}\n");
        for line in body.lines() {
            s.push_str("    ");
            s.push_str(line);
            s.push('\n');
        }
        s.push_str("    impl Tok for T0 { fn id(&self) -> usize { *self as usize } }\n");
    }
    s.push_str("    pub struct S;\n    impl Subject for S {\n");
    s.push_str(&format!("        fn index(&self) -> usize {{ {idx} }}\n"));
    s.push_str("        fn lex(&self, which: u8, src: &[u8], mode: Mode) -> Obs {\n            match which {\n");
    s.push_str("                0 => subject_rt::lex_generic::<T>(<<T as Logos<'_>>::Source as Src>::from_bytes(src), mode),\n");
    s.push_str("                1 => subject_rt::lex_generic::<T0>(<<T0 as Logos<'_>>::Source as Src>::from_bytes(src), mode),\n");
    s.push_str("                2 => subject_rt::lex_generic::<T1>(<<T1 as Logos<'_>>::Source as Src>::from_bytes(src), mode),\n");
    s.push_str("                _ => unreachable!(),\n            }\n        }\n    }\n}\n");
    s
}

/// Pure decision function shared by the generated callbacks and the C13 model.
pub fn decide(salt: u32, slice: &[u8]) -> u64 {
    (crate::fnv(slice) ^ (salt as u64).wrapping_mul(0x9E3779B97F4A7C15)) % 251
}

/// value a callback attaches to a value variant / a custom error
pub fn cb_value(slice: &[u8]) -> u64 {
    crate::fnv(slice) & 0xffff
}

/// number of bytes of `rem` covered by `k` whole chars (str) or `k` bytes (byte mode)
pub fn bump_bytes(rem: &[u8], k: u8, is_str: bool) -> usize {
    if !is_str {
        return (k as usize).min(rem.len());
    }
    let mut n = 0;
    for _ in 0..k {
        if n >= rem.len() {
            break;
        }
        let b = rem[n];
        let w = if b < 0x80 { 1 } else if b >= 0xF0 { 4 } else if b >= 0xE0 { 3 } else { 2 };
        n = (n + w).min(rem.len());
    }
    n
}

/// Fixed members of the core family: hand-written definitions that reach emitter and graph paths which random
/// definitions only hit now and then (each was the trigger of an independently seeded change that one PRNG seed
/// caught and another missed). They are lexed and judged like every other core subject.
pub fn path_defs() -> Vec<SubjectDef> {
    use crate::spec::{DefSpec, LitSpec, PatSpec};
    let rx = |t: &str| PatSpec::regex(LitSpec::str(t));
    let rxg = |t: &str| {
        let mut p = PatSpec::regex(LitSpec::str(t));
        p.allow_greedy = true;
        p
    };
    let brx = |t: &[u8]| PatSpec::regex(LitSpec::bytes(t.to_vec()));
    let tok = |t: &str| PatSpec::token(LitSpec::str(t));
    let pr = |mut p: PatSpec, n: usize| {
        p.priority = Some(n);
        p
    };
    let core = |utf8: bool, skips: Vec<PatSpec>, variants: Vec<Vec<PatSpec>>, skip_log: bool| SubjectDef {
        family: "core".into(),
        def: DefSpec { utf8, subpatterns: vec![], skips, variants },
        skip_log,
        has_value: vec![],
        error_cb: false,
        twin: false,
    };
    vec![
        // comparison emitter on a full-range class with isolated holes, not on a self edge (byte mode)
        core(false, vec![], vec![vec![brx(b"'(?-u:[^'])'")], vec![tok("'")], vec![rx("[a-z]+")], vec![brx(b"\\\\(?-u:.)")], vec![tok("\\")]], false),
        // a callback-less skip that only loops on a single-byte class and extends a token; keywords with dead-end prefixes
        core(true, vec![rxg("//[ -~]*"), rx("[ \\n]+")], vec![vec![tok("/")], vec![tok("let")], vec![rx("[0-9]+")], vec![tok("=")], vec![tok("==")]], false),
        // look-ahead: delayed accepts, end-of-input edges, a look-ahead branch next to a plain branch of one pattern
        core(true, vec![rx(" ")], vec![vec![pr(rx("not(?-u:\\b)|!"), 10)], vec![pr(rx("[a-z]+"), 2)], vec![pr(rx("[0-9]|[a-z]+$"), 5)], vec![pr(rx("ab|a(?-u:\\b)"), 8)]], true),
        core(true, vec![], vec![vec![pr(rx("a+$"), 6)], vec![pr(rx("a+"), 2)], vec![pr(rx("b(?m:$)"), 3)], vec![tok("\\n")], vec![rx("c+")]], false),
        // a non-root state with more than two edge classes (jump table) where lexing can fail
        core(true, vec![rx(" ")], vec![vec![tok("==")], vec![tok("=>")], vec![tok("=~")], vec![tok("=!")], vec![tok("x")], vec![rx("<[a-c]>|<=|<<|<-")]], false),
        // a class range starting at 0x00 that closes a token (byte mode)
        core(false, vec![rx(" ")], vec![vec![rx("[a-z]+")], vec![brx(b"[a-z]+[\\x00-\\x20]")], vec![brx(b"[0-9]+[\\x7f-\\xff]")]], false),
        // more than eight loop classes (second look-up table)
        core(
            true,
            vec![rx(" +")],
            vec![
                vec![rx("[a-c]+0")], vec![rx("[d-f]+1")], vec![rx("[g-i]+2")], vec![rx("[j-l]+3")], vec![rx("[m-o]+4")], vec![rx("[p-r]+5")], vec![rx("[s-u]+6")],
                vec![rx("[v-x]+7")], vec![rx("[yz]+8")], vec![rx("[A-Z]+9")], vec![rx("[0-9]+_")],
            ],
            false,
        ),
        // end anchors next to patterns that fail on a multi-byte char right after a shared prefix
        core(true, vec![], vec![vec![rx(".\\z\\d")], vec![pr(tok(" c"), 3)], vec![rx("(?:λ日K){2,}(?m:$)")], vec![rx("0\\.(?m:$)"), rx("c\\. |1Σ\\z")]], false),
        // fixed-size binary records: runs of states left by one edge that covers all 256 byte values (byte mode)
        core(false, vec![], vec![vec![brx(b"\\x01(?s-u:.){4}")], vec![brx(b"\\x02(?s-u:.){2}z")], vec![tok("a")], vec![brx(b"\\x03(?s-u:.)(?s-u:.)(?s-u:.)\\x03")]], false),
        // non-ASCII literals and classes whose near misses share lead / continuation bytes
        core(true, vec![rx(" ")], vec![vec![rx("\\$[α-ω]+")], vec![tok("é")], vec![tok("€")], vec![tok("😀")], vec![rx("x+é")], vec![rx("[一-龥]+")]], true),
        // self loops over "every byte but one / two" (byte mode): the widest loop classes, with text after the loop
        core(false, vec![rx(" ")], vec![vec![brx(b"<(?-u:[^>])*>!")], vec![rx("[a-z]+")], vec![tok("<")], vec![brx(b"\\{(?-u:[^{}])+\\}")], vec![tok("!")]], false),
        // self loop over "ASCII but one char" in str mode next to patterns for the non-ASCII rest
        core(true, vec![rx(" ")], vec![vec![rx("\"[\\x00-\\x7f&&[^\"]]*\"")], vec![rx("[^\\x00-\\x7f]+")], vec![tok("\"")], vec![rx("#[[:ascii:]&&[^;]]+;?")]], false),
        // one leaf with a look-ahead branch (late accept) and non-extendable multi-byte branches that a lower-priority leaf
        // matches as well (early accept with the same edges): the two kinds of accept must stay apart
        core(true, vec![rx(" ")], vec![vec![pr(rx("[0-9]+(?-u:\\b)|π|∞"), 10)], vec![pr(rx("\\p{Greek}|[∞∑∏√]"), 2)], vec![pr(rx("[a-z]+"), 3)], vec![pr(rx("é+$|€"), 9)], vec![pr(rx("[€-₿]"), 1)]], false),
        // twin loop states: same leaf, same edges to other states (a common tail with several continuations), different
        // self-loop classes - states that "transition alike" except for the bytes they loop on
        core(true, vec![rx(" ")], vec![vec![rx("0x[0-9a-f]+(u|l|ul)?|0b[01]+(u|l|ul)?")], vec![rx("x[a-z]*(;|::)|y[0-9]*(;|::)")], vec![tok(";")], vec![rx("(?:p[0-9]*|q[a-c]*)(?:!|\\?\\?|=)")]], false),
        // a counted repetition far beyond the generator's bounds: hundreds of states in front of one final state
        core(true, vec![], vec![vec![rx("[0-9a-f]{1,300}")], vec![rx("[g-z]+")], vec![tok("-")]], false),
        // classes of exactly two bytes a power of two apart, in both alignments of the differing bit (0x30/0x50 are 0x20
        // apart and the smaller one already has that bit set), on states with at most two edges
        core(true, vec![], vec![vec![rx("[0P]+;")], vec![rx("[ @][?_]x")], vec![rx("[08][AQ]!")], vec![rx("[kK][0p]-")], vec![rx("[=\\]][-M]")]], false),
        core(false, vec![], vec![vec![brx(b"(?-u:[\\x60\\x80])+;")], vec![brx(b"(?-u:[\\xA0\\xC0])(?-u:[\\x7f\\xff])x")], vec![tok(";")]], false),
        // bounded repetitions of the dot and of dot-like classes (str mode): a run counted in chars, ending on 2-4 byte chars
        core(true, vec![rx(" ")], vec![vec![rx("a.?")], vec![rx("b.{2}")], vec![rx("c[^\\n]{0,3}!")], vec![rx("[d-z]+")], vec![rx("0(?s:.){1,2}")], vec![rx("1(.)?(.)?;")]], false),
        // the same text as a plain token and, at a higher priority, as an end-anchored pattern, with nothing longer running
        // through it: which of the two a buffer ending right after the text holds is decided by the next byte only
        core(true, vec![rx(" ")], vec![vec![tok(";")], vec![pr(rx(";$"), 10)], vec![tok("x")], vec![pr(rx("x\\z"), 9)], vec![tok("end")], vec![pr(rx("end(?m:$)"), 12)], vec![rx("[a-df-w]")]], false),
        // an end-anchored pattern whose tail is a loop, next to its plain prefix and to a pattern for the loop's bytes: the
        // run is lexed with the shorter match recorded, whatever the source holds further on
        core(true, vec![rx(" ")], vec![vec![tok("y")], vec![pr(rx("y[0-9]+$"), 11)], vec![rx("[0-9]+")], vec![pr(rx("z[a-c]*\\z"), 12)], vec![tok("z")], vec![rx("[a-c]+")]], false),
        // a byte class and its exact complement, both tested through look-up tables in one byte-mode definition (loops and
        // forks), in both declaration orders
        core(false, vec![], vec![vec![brx(b"[a-zA-Z0-9_]+")], vec![brx(b"@(?-u:[^a-zA-Z0-9_])*x")], vec![tok("@")], vec![brx(b"#(?-u:[^a-zA-Z0-9_])[a-zA-Z0-9_]")]], false),
        core(false, vec![], vec![vec![brx(b"<(?-u:[^ac-eg])+>")], vec![brx(b"[ac-eg]+")], vec![tok("<")], vec![brx(b"=[ac-eg]=(?-u:[^ac-eg])")]], false),
        // literals longer than 32 bytes (ASCII, 2-, 3- and 4-byte chars), with a shorter literal as their prefix
        core(true, vec![rx(" ")], vec![vec![tok("日本語の文字列を読み取る試験ですよ")], vec![tok("日本")], vec![tok("abcdefghijklmnopqrstuvwxyz0123456789ABCDEFGH")], vec![tok("abc")], vec![tok("éàüöéàüöéàüöéàüöéàüö")], vec![tok("😀😁😂😃😄😅😆😇😈")], vec![rx("[a-z]")]], false),
        // literal runs: patterns (token, regex, skip) that end strictly inside a longer pattern's run of single-byte,
        // single-edge states (runs of 3, 4, 7, 8 states), with nothing else keeping those states multi-edge; the covering
        // inputs complete the run and fail after it, or end inside it
        core(true, vec![rx("--"), rx(" ")], vec![vec![tok("let")], vec![rx("letter[0-9]+")], vec![tok("ab")], vec![rx("abcdefghi[0-9]")], vec![rx("------>")], vec![tok("=")], vec![tok("====")], vec![tok("========!")]], true),
        // literal tails of 4 .. 21 bytes that share no state with another pattern and hold no accept on the way, next to
        // a pattern that leaves the root on other bytes: input ending inside the tail is one error over the whole prefix
        core(true, vec![rx(" ")], vec![vec![tok("while")], vec![rx("[0-9]+")], vec![tok("qrstuvwxyzqrstuvwxyz0")], vec![tok("=>>>>>>>>")], vec![rx("x(yzyzyzyz)+")]], false),
        core(false, vec![], vec![vec![PatSpec::token(LitSpec::bytes(b"\xC3\xA9\xC3\xA9!".to_vec()))], vec![brx(b"\x00\x01\x02\x03\x04[\x05\x06]")], vec![brx(b"\x00\x01")], vec![tok("é")]], false),
        // str mode: loops over classes that exclude single non-ASCII chars (every lead byte present, not every
        // continuation byte), next to tokens for the excluded chars
        core(true, vec![], vec![vec![rx("[^é;/]+")], vec![tok("é")], vec![tok(";")], vec![rxg("//[^\\n\\u{2028}\\u{2029}]*")], vec![tok("/")]], false),
        core(true, vec![rx("\\s+")], vec![vec![rx("[\\S&&\\PN]+")], vec![rx("\\pN+")]], true),
        // Unicode-aware negated class loop lexing arbitrary bytes (utf8 = false): invalid sequences end the loop
        core(false, vec![], vec![vec![rx("[^;§]+")], vec![tok(";")], vec![tok("§")], vec![brx(b"(?-u:[\\x80-\\xff])")]], false),
    ]
}

/// Str-mode definitions with a pattern that can match part of a code point. The tree is expected to reject every one of
/// them (C04's acceptance clause, checked in tier G); a tree that accepts one gets it compiled as a core subject, so that
/// the runtime clauses (char-boundary spans C04, str slices inside the source C05, str/bytes agreement C12) see what the
/// accepted definition does. On a tree that rejects them all this family is empty.
pub fn trap_defs() -> Vec<SubjectDef> {
    use crate::spec::{DefSpec, LitSpec, PatSpec};
    let rx = |t: &str| PatSpec::regex(LitSpec::str(t));
    let brx = |t: &[u8]| PatSpec::regex(LitSpec::bytes(t.to_vec()));
    let btok = |t: &[u8]| PatSpec::token(LitSpec::bytes(t.to_vec()));
    let core = |skips: Vec<PatSpec>, variants: Vec<Vec<PatSpec>>| SubjectDef {
        family: "core".into(),
        def: DefSpec { utf8: true, subpatterns: vec![], skips, variants },
        skip_log: false,
        has_value: vec![],
        error_cb: false,
        twin: false,
    };
    vec![
        core(vec![brx(b"\xC3")], vec![vec![rx("[a-z]+")], vec![rx("[0-9]")]]),
        core(vec![brx(b"[\x80-\xBF]")], vec![vec![rx("[a-z]+")], vec![rx("\\p{Greek}+")]]),
        core(vec![rx("(?-u)\\xE2")], vec![vec![rx("[a-z€]+")]]),
        core(vec![rx(" ")], vec![vec![brx(b"[a-z]+(?-u:[\x80-\xFF])?")], vec![rx("é")]]),
        core(vec![rx(" ")], vec![vec![btok(b"\xE6\x97")], vec![rx("[a-z日]+")]]),
        core(vec![rx(" ")], vec![vec![rx("a(?s-u:.)")], vec![rx("[b-zé]+")]]),
    ]
}

/// Fixed members of the literal family (C10 on compiled lexers): case-insensitive literals whose two cases differ in the
/// last byte by one bit other than 0x20 (ⅷ/Ⅷ 0x10, ἀ/Ἀ 0x08, ā/Ā 0x01), by 0x20 (а/А), in two bytes (я/Я), in length
/// (ſ/s, K/k, ß/ẞ), in a 4-byte char (𐐨/𐐀); literals made of regex metacharacters; byte-string literals.
pub fn lit_defs() -> Vec<SubjectDef> {
    use crate::spec::{DefSpec, LitSpec, PatSpec};
    let ci = |mut p: PatSpec| {
        p.ignore_case = true;
        p
    };
    let tok = |t: &str| PatSpec::token(LitSpec::str(t));
    let rx = |t: &str| PatSpec::regex(LitSpec::str(t));
    let lit = |utf8: bool, skips: Vec<PatSpec>, variants: Vec<Vec<PatSpec>>| SubjectDef {
        family: "lit".into(),
        def: DefSpec { utf8, subpatterns: vec![], skips, variants },
        skip_log: false,
        has_value: vec![],
        error_cb: false,
        twin: false,
    };
    vec![
        lit(true, vec![ci(rx("ⅰ"))], vec![vec![ci(tok("ⅷ"))], vec![ci(tok("ἀρχή"))], vec![ci(tok("ā"))], vec![ci(tok("яа"))], vec![ci(tok("𐐨"))], vec![ci(rx("ὀ+"))], vec![tok("ⅸ")]]),
        lit(true, vec![], vec![vec![ci(tok("ſk"))], vec![ci(tok("straße"))], vec![ci(tok("ǆ"))], vec![ci(tok("σ."))], vec![tok("a+b")], vec![tok("(?i)")], vec![tok("[a-z]")], vec![tok("\\")]]),
        // aliases: several case-insensitive literals on one variant, the later ones prefixes / extensions of the earlier
        lit(true, vec![], vec![vec![ci(tok("integer")), ci(tok("int")), ci(tok("i64"))], vec![ci(tok("σς")), tok("ς"), ci(tok("é+"))], vec![tok("x")]]),
        lit(false, vec![], vec![vec![ci(PatSpec::token(LitSpec::bytes(b"k\xC3\xA9".to_vec())))], vec![ci(PatSpec::token(LitSpec::bytes(b"Q\xff".to_vec())))], vec![ci(tok("ⅷ"))], vec![PatSpec::token(LitSpec::bytes(b"\x00.".to_vec()))]]),
    ]
}

/// Fixed members of the callbacks family: every documented return type on a variant kind that admits it, in every
/// attachment form, with patterns (`<letter>[0-9]{1,2}`) whose matches run through all decisions of each callback.
pub fn table_defs() -> Vec<SubjectDef> {
    use crate::spec::{CbSpec, DefSpec, LitSpec, PatSpec};
    let mut out = Vec::new();
    for (error_cb, salt0) in [(false, 11u32), (true, 23u32)] {
        // unit variants: return types 0..=10
        let mut variants = Vec::new();
        for ret in 0u8..=10 {
            let letter = (b'a' + ret) as char;
            let mut p = PatSpec::regex(LitSpec::str(format!("{letter}[0-9]{{1,2}}")));
            p.callback = Some(CbSpec { ret, salt: salt0 + ret as u32, bump: if ret % 5 == 4 { 1 } else { 0 }, form: ret % 7 });
            variants.push(vec![p]);
        }
        variants.push(vec![PatSpec::token(LitSpec::str("z"))]);
        // case-insensitive literal tokens with callbacks (unit return types: such a definition compiles whatever happens
        // to the callback, so a lost callback shows in the stream, not as a build failure)
        for (k, ret) in [0u8, 1, 3, 5, 6].into_iter().enumerate() {
            let mut p = PatSpec::token(LitSpec::str(format!("kw{}", (b'q' + k as u8) as char)));
            p.ignore_case = true;
            p.callback = Some(CbSpec { ret, salt: salt0 + 40 + ret as u32, bump: 0, form: (k as u8) % 4 });
            variants.push(vec![p]);
        }
        // patterns stacked on one variant: a plain one followed by one with a callback, and the other way round
        {
            let plain = PatSpec::token(LitSpec::str("yy"));
            let mut cb = PatSpec::regex(LitSpec::str("y[0-9]{1,2}"));
            cb.callback = Some(CbSpec { ret: 1, salt: salt0 + 61, bump: 0, form: 0 });
            variants.push(vec![plain, cb]);
            let mut cb2 = PatSpec::regex(LitSpec::str("x[0-9]{1,2}"));
            cb2.callback = Some(CbSpec { ret: 5, salt: salt0 + 62, bump: 0, form: 3 });
            variants.push(vec![cb2, PatSpec::token(LitSpec::str("xx"))]);
        }
        let n_leaves: usize = variants.iter().map(|v| v.len()).sum();
        let mut has_value = vec![false; n_leaves];
        let mut sk = PatSpec::regex(LitSpec::str(" "));
        sk.callback = None;
        // the pair with an error callback lexes [u8]
        let utf8 = !error_cb;
        out.push(SubjectDef { family: "callbacks".into(), def: DefSpec { utf8, subpatterns: vec![], skips: vec![sk], variants: variants.clone() }, skip_log: false, has_value: std::iter::once(false).chain(has_value.iter().copied()).collect(), error_cb, twin: false });
        // value variants (11..=15) and skips with callbacks (16..=19)
        let mut variants = Vec::new();
        let mut skips = Vec::new();
        for ret in 16u8..=19 {
            let letter = (b'A' + ret - 16) as char;
            let mut p = PatSpec::regex(LitSpec::str(format!("{letter}[0-9]{{1,2}}")));
            p.callback = Some(CbSpec { ret, salt: salt0 + ret as u32, bump: 0, form: 2 + ret % 2 });
            skips.push(p);
        }
        for ret in 11u8..=15 {
            let letter = (b'a' + ret) as char;
            let mut p = PatSpec::regex(LitSpec::str(format!("{letter}[0-9]{{1,2}}")));
            p.callback = Some(CbSpec { ret, salt: salt0 + ret as u32, bump: if ret == 13 { 1 } else { 0 }, form: ret % 7 });
            variants.push(vec![p]);
        }
        variants.push(vec![PatSpec::token(LitSpec::str("z"))]);
        has_value = vec![false; skips.len()];
        has_value.extend(std::iter::repeat(true).take(5));
        has_value.push(false);
        out.push(SubjectDef { family: "callbacks".into(), def: DefSpec { utf8, subpatterns: vec![], skips, variants }, skip_log: false, has_value, error_cb, twin: false });
    }
    // callbacks on tokens whose last state has nothing but its self loop (a buffer that ends inside such a token holds an
    // unfinished match), skip with a callback of the same shape
    {
        let mk = |text: &str, ret: u8, salt: u32, form: u8| {
            let mut p = PatSpec::regex(LitSpec::str(text));
            p.callback = Some(CbSpec { ret, salt, bump: 0, form });
            p
        };
        let skips = vec![mk("[ \\n]+", 17, 71, 2)];
        // .. and longer patterns running through the same loops: a run followed by text that starts the longer pattern and
        // then fails falls back to the whole run
        let variants = vec![
            vec![mk("[0-9]+", 12, 72, 0)], vec![mk("[a-c]+", 1, 73, 1)], vec![mk("[x-z]+", 5, 74, 3)], vec![mk("-+", 0, 75, 2)], vec![PatSpec::token(LitSpec::str("!"))],
            vec![mk("[0-9]+\\.[0-9]+", 13, 76, 0)], vec![mk("[a-c]+-[a-c]+", 0, 77, 1)],
        ];
        let has_value = vec![false, true, false, false, false, false, true, false];
        out.push(SubjectDef { family: "callbacks".into(), def: DefSpec { utf8: true, subpatterns: vec![], skips, variants }, skip_log: false, has_value, error_cb: false, twin: false });
    }
    out
}

/// Fixed stress family (C06 stack clause, C20 adversarial shapes): hand-picked definitions.
pub fn stress_defs() -> Vec<SubjectDef> {
    use crate::spec::{CbSpec, DefSpec, LitSpec, PatSpec};
    let rx = |t: &str| {
        let mut p = PatSpec::regex(LitSpec::str(t));
        p.allow_greedy = true;
        p
    };
    let tok = |t: &str| PatSpec::token(LitSpec::str(t));
    let mut out = Vec::new();
    // 0: pattern skips, giant self-loop token, giant 2-cycle token, short tokens
    out.push(SubjectDef {
        family: "stress".into(),
        def: DefSpec { utf8: true, subpatterns: vec![], skips: vec![rx("[ \\n]")], variants: vec![vec![rx("a+")], vec![rx("x(yx)*z")], vec![tok("b")], vec![tok(";")]] },
        skip_log: false,
        has_value: vec![],
        error_cb: false,
        twin: true,
    });
    // 1: adversarial nested / overlapping repetitions
    out.push(SubjectDef {
        family: "stress".into(),
        def: DefSpec {
            utf8: true,
            subpatterns: vec![],
            skips: vec![],
            variants: vec![vec![rx("(a*)*b")], vec![rx("(c|cc)+d")], vec![rx("(e|ef)(g|fgh)*i")], vec![rx("k(.*l)?")], vec![rx("(m+n?)+o")], vec![rx("[p-r]{1,3}(?:pq|qr){2,}s")]],
        },
        skip_log: false,
        has_value: vec![],
        error_cb: false,
        twin: true,
    });
    // 2: byte mode, overlapping keyword / identifier sets and a long literal
    out.push(SubjectDef {
        family: "stress".into(),
        def: DefSpec {
            utf8: false,
            subpatterns: vec![],
            skips: vec![rx(" +")],
            variants: vec![vec![rx("[a-z_][a-z0-9_]*")], vec![tok("abcdefghijklmnopqrstuvwxyz0123456789")], vec![tok("abcdefghijklmnop")], vec![rx("[0-9]+(\\.[0-9]+)?")], vec![rx("\"([^\"\\\\]|\\\\.)*\"")]],
        },
        skip_log: false,
        has_value: vec![],
        error_cb: false,
        twin: true,
    });
    // 3: every pattern starts with the same optional repetition: the root of the graph loops on itself
    out.push(SubjectDef {
        family: "stress".into(),
        def: DefSpec { utf8: true, subpatterns: vec![], skips: vec![], variants: vec![vec![rx(" *[a-z]+")], vec![rx(" *[0-9]+")], vec![rx(" *;")]] },
        skip_log: false,
        has_value: vec![],
        error_cb: false,
        twin: true,
    });
    // 4: callbacks family shape: skipping through callbacks (Skip and Filter::Skip) and a skip pattern with a callback
    let mut sk = rx("-");
    sk.callback = Some(CbSpec { ret: 16, salt: 1, bump: 0, form: 2 });
    let mut c1 = rx(" ");
    c1.callback = Some(CbSpec { ret: 3, salt: 2, bump: 0, form: 0 });
    let mut c2 = rx("\\n");
    c2.callback = Some(CbSpec { ret: 5, salt: 3, bump: 0, form: 1 });
    let mut c3 = rx("w+");
    c3.callback = Some(CbSpec { ret: 11, salt: 4, bump: 0, form: 3 });
    out.push(SubjectDef {
        family: "stress-cb".into(),
        def: DefSpec { utf8: true, subpatterns: vec![], skips: vec![sk], variants: vec![vec![c1], vec![c2], vec![c3], vec![tok("b")]] },
        skip_log: false,
        has_value: vec![false, false, false, true, false],
        error_cb: false,
        twin: false,
    });
    out
}
