//! Interpreter for the captured logos graph (tier G subject). Mirrors the emitted code as read in
//! `generator/mod.rs`, `fork.rs`, `fast_loop.rs`, `leaf.rs`: on entering a state run the self-loop,
//! then record the accept (`early` => offset, `accept` => offset - 1), then follow the byte edge or
//! the end-of-input edge, else take the action of the recorded leaf. It is a *subject*: if it is
//! wrong about the emitted code, tier X (the compiled lexers) is the arbiter.

use logos_codegen::verif::{GraphDump, StateDump};

use crate::Item;

fn find_edge(sd: &StateDump, b: u8) -> Option<usize> {
    for (ranges, next) in &sd.normal {
        if ranges.iter().any(|&(lo, hi)| lo <= b && b <= hi) {
            return Some(*next);
        }
    }
    None
}

pub struct GraphLexer<'a> {
    pub g: &'a GraphDump,
    pub src: &'a [u8],
    pub utf8: bool,
    pub partial: bool,
    pub token_start: usize,
    pub token_end: usize,
    /// skipped regions (start, end, leaf) logged by the interpreter
    pub skips: Vec<(usize, usize, usize)>,
    /// source reads (offset) performed in the current `next` call, for trace-style checks
    pub steps: usize,
    /// one call of `next` went round without consuming input (e.g. an empty skip restarting for ever): the real lexer
    /// would not return; `run` reports the iteration as not ended (a C03 finding)
    pub stuck: bool,
}

impl<'a> GraphLexer<'a> {
    pub fn new(g: &'a GraphDump, src: &'a [u8], utf8: bool, partial: bool) -> Self {
        GraphLexer { g, src, utf8, partial, token_start: 0, token_end: 0, skips: Vec::new(), steps: 0, stuck: false }
    }

    fn find_boundary(&self, mut i: usize) -> usize {
        if self.utf8 {
            // str::is_char_boundary: index == len is a boundary, index > len is not
            let mut guard = 0;
            while !(i == self.src.len() || (i < self.src.len() && (self.src[i] & 0xC0) != 0x80)) {
                i += 1;
                guard += 1;
                if guard > 8 {
                    break;
                }
            }
        }
        i
    }

    /// One call of `Iterator::next`. `Some(Ok(leaf))`, `Some(Err(()))`, or `None`.
    pub fn next(&mut self) -> Option<Result<usize, ()>> {
        self.token_start = self.token_end;
        let g = self.g;
        let mut state = g.root;
        let mut offset = self.token_start;
        let mut ctx: Option<usize> = None;
        let len = self.src.len();
        let mut fuel = 4 * (len + 4) + 64;
        loop {
            fuel -= 1;
            if fuel == 0 {
                self.stuck = true;
                return None;
            }
            let sd = &g.states[state];
            // fast loop over the self edge
            if let Some((ranges, _)) = sd.normal.iter().find(|(_, next)| *next == state) {
                while offset < len && ranges.iter().any(|&(lo, hi)| lo <= self.src[offset] && self.src[offset] <= hi) {
                    offset += 1;
                    self.steps += 1;
                }
            }
            if let Some(l) = sd.early {
                self.token_end = offset;
                ctx = Some(l);
            } else if let Some(l) = sd.accept {
                self.token_end = offset.saturating_sub(1);
                ctx = Some(l);
            }
            self.steps += 1;
            if offset < len {
                let b = self.src[offset];
                if let Some(next) = find_edge(sd, b) {
                    if next != state {
                        offset += 1;
                        state = next;
                        continue;
                    }
                }
            } else {
                if (!sd.normal.is_empty() || sd.eoi.is_some()) && self.partial {
                    self.token_end = self.token_start;
                    return None;
                }
                if state == g.root && self.token_start == offset {
                    return None;
                }
                if let Some(e) = sd.eoi {
                    offset += 1;
                    state = e;
                    continue;
                }
            }
            // take action
            match ctx {
                None => {
                    self.token_end = self.find_boundary(offset.max(self.token_start + 1));
                    return Some(Err(()));
                }
                Some(l) => {
                    if g.leaves[l].variant.is_none() {
                        self.skips.push((self.token_start, self.token_end, l));
                        // the fuel bounds one attempt: a skip that consumed input starts a fresh one (every attempt may read
                        // to the end of the source before falling back to a one-char skip); an empty skip is what never ends
                        if self.token_end == self.token_start {
                            self.stuck = true;
                            return None;
                        }
                        fuel = 4 * (len + 4) + 64;
                        self.token_start = self.token_end;
                        offset = self.token_start;
                        ctx = None;
                        state = g.root;
                        continue;
                    }
                    return Some(Ok(l));
                }
            }
        }
    }

    /// Lex everything; returns items (leaf-level) and whether iteration ended (None reached within bound).
    pub fn run(&mut self) -> (Vec<Item>, bool) {
        let mut items = Vec::new();
        let bound = 2 * self.src.len() + 4;
        for _ in 0..bound {
            match self.next() {
                None if self.stuck => return (items, false),
                None => return (items, true),
                Some(Ok(l)) => items.push(Item { kind: Some(l), start: self.token_start, end: self.token_end }),
                Some(Err(())) => items.push(Item { kind: None, start: self.token_start, end: self.token_end }),
            }
        }
        (items, false)
    }
}
