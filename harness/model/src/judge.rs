//! Judging a subject's one-shot item stream against the reference, per attempt, resynchronising on
//! the subject's own positions so that each property is judged on its own clause only.

use serde::Serialize;

use crate::reference::{Attempt, RefLexer, Verdict};
use crate::Item;

#[derive(Clone, Debug, Serialize)]
pub struct Finding {
    /// property whose clause is violated
    pub property: &'static str,
    pub at: usize,
    pub what: String,
}

#[derive(Clone, Debug, Default)]
pub struct JudgeStats {
    pub attempts: usize,
    pub match_attempts: usize,
    pub skip_attempts: usize,
    pub err_attempts: usize,
    pub ties: usize,
    /// C01: attempts where >= 2 patterns had a non-empty match, or the winner had several match ends,
    /// or text past the match end was still viable (reading past the end was necessary)
    pub c01_nontrivial: Vec<usize>,
    /// C02: error attempts whose span is > 1 byte, or ends by rounding, or ends at end of input
    pub c02_nontrivial: Vec<usize>,
}

fn describe(r: &RefLexer, a: &Attempt) -> String {
    match &a.verdict {
        Verdict::Match { end, winners, .. } => {
            let w = winners[0];
            if r.pats[w].is_skip {
                format!("skip by leaf {w} ending at {end}")
            } else {
                format!("token leaf {w} (variant {:?}) ending at {end}", r.pats[w].variant)
            }
        }
        Verdict::Error { end } => format!("error ending at {end}"),
    }
}

/// `kind_of(leaf)` maps a reference pattern (leaf index) to the `kind` the subject reports for it.
pub fn judge(
    r: &RefLexer,
    prio: &[usize],
    s: &[u8],
    items: &[Item],
    ended: bool,
    kind_of: &dyn Fn(usize) -> usize,
) -> (Vec<Finding>, JudgeStats) {
    let mut f = Vec::new();
    let mut st = JudgeStats::default();
    let mut pos = 0usize;
    let len = s.len();

    let note = |st: &mut JudgeStats, a: &Attempt| {
        st.attempts += 1;
        match &a.verdict {
            Verdict::Match { end, winners, .. } => {
                if winners.len() > 1 {
                    st.ties += 1;
                }
                let w = winners[0];
                if a.n_matching >= 2 || a.runs[w].ends.len() >= 2 || a.start + a.viable > *end {
                    st.c01_nontrivial.push(a.start);
                }
            }
            Verdict::Error { end } => {
                st.err_attempts += 1;
                let unrounded = (a.start + a.viable).max(a.start + 1);
                if *end - a.start > 1 || *end != unrounded || *end == len {
                    st.c02_nontrivial.push(a.start);
                }
            }
        }
    };

    // explain the gap pos..upto by reference skips
    let gap = |pos: &mut usize, upto: usize, f: &mut Vec<Finding>, st: &mut JudgeStats| {
        while *pos < upto {
            let a = r.attempt(s, *pos, prio);
            note(st, &a);
            match &a.verdict {
                Verdict::Match { end, winners, .. } if winners.iter().any(|&w| r.pats[w].is_skip) && *end <= upto => {
                    st.skip_attempts += 1;
                    *pos = *end;
                }
                _ => {
                    f.push(Finding {
                        property: "C01",
                        at: *pos,
                        what: format!("subject produced nothing for {}..{upto} but the reference at {} says {}", *pos, *pos, describe(r, &a)),
                    });
                    *pos = upto;
                }
            }
        }
    };

    for it in items {
        if it.start < pos {
            f.push(Finding { property: "C03", at: it.start, what: format!("item {it:?} starts before the previous end {pos}") });
        }
        if it.end <= it.start || it.end > len {
            f.push(Finding { property: "C03", at: it.start, what: format!("item {it:?} has an empty or out-of-range span (len {len})") });
            if it.end > len && it.kind.is_some() {
                // whatever the reference says at it.start, no matched prefix of the remaining input is that long
                f.push(Finding { property: "C01", at: it.start, what: format!("token {it:?} covers more than the remaining input (len {len})") });
            } else if it.end > len {
                f.push(Finding { property: "C02", at: it.start, what: format!("error {it:?} ends beyond the end of the input (len {len})") });
            }
            pos = pos.max(it.end.min(len));
            continue;
        }
        gap(&mut pos, it.start, &mut f, &mut st);
        let a = r.attempt(s, it.start, prio);
        note(&mut st, &a);
        match (&a.verdict, it.kind) {
            (Verdict::Match { end, winners, .. }, Some(k)) => {
                st.match_attempts += 1;
                let ok = winners.iter().any(|&w| !r.pats[w].is_skip && kind_of(w) == k) && it.end == *end;
                if !ok {
                    f.push(Finding {
                        property: "C01",
                        at: it.start,
                        what: format!("subject yielded Ok({k}) {}..{} but the reference says {}", it.start, it.end, describe(r, &a)),
                    });
                }
            }
            (Verdict::Match { .. }, None) => {
                f.push(Finding {
                    property: "C01",
                    at: it.start,
                    what: format!("subject yielded Err {}..{} but the reference says {}", it.start, it.end, describe(r, &a)),
                });
            }
            (Verdict::Error { end }, None) => {
                if it.end != *end {
                    f.push(Finding {
                        property: "C02",
                        at: it.start,
                        what: format!("error span {}..{} but the rule gives {}..{} (viable prefix {} bytes)", it.start, it.end, it.start, end, a.viable),
                    });
                }
            }
            (Verdict::Error { end }, Some(k)) => {
                f.push(Finding {
                    property: "C01",
                    at: it.start,
                    what: format!("subject yielded Ok({k}) {}..{} but no pattern matches a non-empty prefix there", it.start, it.end),
                });
                // the same observation under C02's clause: where no pattern matches, exactly one Err is due
                f.push(Finding {
                    property: "C02",
                    at: it.start,
                    what: format!("no pattern matches a non-empty prefix at {}: an Err {}..{end} is due, the subject yielded Ok({k}) {}..{}", it.start, it.start, it.start, it.end),
                });
            }
        }
        pos = it.end;
    }
    if ended {
        gap(&mut pos, len, &mut f, &mut st);
    }
    (f, st)
}

/// C03 runtime clause on a one-shot run: spans non-empty, strictly increasing, non-overlapping, gaps
/// exactly the skipped regions logged by the subject, everything ends at `len`, iteration ended.
pub fn tiling(len: usize, items: &[Item], skips: Option<&[(usize, usize)]>, ended: bool, none_again: bool) -> Vec<Finding> {
    let mut f = Vec::new();
    if !ended {
        f.push(Finding { property: "C03", at: 0, what: format!("iterator did not end within {} calls", 2 * len + 4) });
        return f;
    }
    if !none_again {
        f.push(Finding { property: "C03", at: len, what: "next() returned Some after having returned None".into() });
    }
    let mut regions: Vec<(usize, usize, bool)> = items.iter().map(|i| (i.start, i.end, true)).collect();
    if let Some(sk) = skips {
        regions.extend(sk.iter().map(|&(a, b)| (a, b, false)));
    }
    regions.sort();
    let mut pos = 0;
    for &(a, b, is_item) in &regions {
        if b <= a {
            f.push(Finding { property: "C03", at: a, what: format!("empty or reversed {} span {a}..{b}", if is_item { "item" } else { "skip" }) });
            continue;
        }
        if skips.is_some() {
            if a != pos {
                f.push(Finding { property: "C03", at: pos, what: format!("region {a}..{b} does not start at the previous end {pos}") });
            }
        } else if a < pos {
            f.push(Finding { property: "C03", at: pos, what: format!("item {a}..{b} overlaps the previous end {pos}") });
        }
        pos = b.max(pos);
    }
    if skips.is_some() && pos != len {
        f.push(Finding { property: "C03", at: pos, what: format!("last item or skip ends at {pos}, input length is {len}") });
    }
    if pos > len {
        f.push(Finding { property: "C03", at: pos, what: format!("span end {pos} beyond input length {len}") });
    }
    f
}
