//! Model-guided input generation: breadth-first walk over the joint space (graph state, recorded
//! leaf, reference state tuple) giving shortest witnesses for every joint state, extended by one
//! representative byte of every block of the common refinement of all outgoing byte partitions
//! (both end points of every block). Deterministic.

use std::collections::HashMap;

use logos_codegen::verif::GraphDump;
use regex_automata::dfa::Automaton;

use crate::reference::{Matcher, RefLexer};

#[derive(Clone, Debug, Default)]
pub struct CoverStats {
    pub joint_states: usize,
    pub capped: bool,
    pub inputs: usize,
    pub dropped_invalid_utf8: usize,
}

#[derive(Clone, PartialEq, Eq, Hash)]
struct Joint {
    g: usize,
    ctx: Option<usize>,
    /// per pattern: dfa state index, or matched prefix length for exact literals; usize::MAX = dead
    r: Vec<usize>,
}

fn g_next(g: &GraphDump, s: usize, b: u8) -> Option<usize> {
    for (ranges, next) in &g.states[s].normal {
        if ranges.iter().any(|&(lo, hi)| lo <= b && b <= hi) {
            return Some(*next);
        }
    }
    None
}

fn r_next(r: &RefLexer, cur: &[usize], b: u8, out: &mut Vec<usize>) {
    out.clear();
    for (pt, &c) in r.pats.iter().zip(cur.iter()) {
        if c == usize::MAX {
            out.push(usize::MAX);
            continue;
        }
        match &pt.matcher {
            Matcher::Exact(w) => {
                if c < w.len() && w[c] == b {
                    out.push(c + 1);
                } else {
                    out.push(usize::MAX);
                }
            }
            Matcher::Dfa(d) => {
                let t = d.dfa.next_state(d.ids[c], b);
                if d.dfa.is_dead_state(t) {
                    out.push(usize::MAX);
                } else {
                    out.push(d.idx(t));
                }
            }
        }
    }
}

/// If `v` is valid UTF-8 return it; if it only ends in an incomplete sequence, complete it; else None.
pub fn utf8_fixup(mut v: Vec<u8>) -> Option<Vec<u8>> {
    for _ in 0..4 {
        match std::str::from_utf8(&v) {
            Ok(_) => return Some(v),
            Err(e) => {
                if e.error_len().is_some() {
                    return None;
                }
                let mut done = false;
                for c in [0x80u8, 0xA0, 0x90, 0x8F] {
                    v.push(c);
                    match std::str::from_utf8(&v) {
                        Ok(_) => {
                            done = true;
                            break;
                        }
                        Err(e2) if e2.error_len().is_none() => {
                            done = true;
                            break;
                        }
                        Err(_) => {
                            v.pop();
                        }
                    }
                }
                if !done {
                    return None;
                }
            }
        }
    }
    std::str::from_utf8(&v).ok()?;
    Some(v)
}

pub fn covering_inputs(g: &GraphDump, r: &RefLexer, utf8: bool, cap_states: usize, cap_inputs: usize) -> (Vec<Vec<u8>>, CoverStats) {
    let mut stats = CoverStats::default();
    let start = Joint { g: g.root, ctx: None, r: vec![0; r.pats.len()] };
    // parent pointers
    let mut nodes: Vec<(Joint, Option<(usize, u8)>)> = vec![(start.clone(), None)];
    let mut seen: HashMap<Joint, usize> = HashMap::new();
    seen.insert(start, 0);
    let mut raw: Vec<Vec<u8>> = Vec::new();
    let mut i = 0;
    let mut tmp = Vec::new();
    let tails: [&[u8]; 3] = [b"", b"a", b" b"];
    while i < nodes.len() {
        let (j, _) = nodes[i].clone();
        // witness
        let mut w = Vec::new();
        {
            let mut k = i;
            while let Some((p, b)) = nodes[k].1 {
                w.push(b);
                k = p;
            }
            w.reverse();
        }
        raw.push(w.clone());
        // signatures per byte
        let mut sigs: Vec<(Option<usize>, Vec<usize>)> = Vec::with_capacity(256);
        for b in 0..=255u8 {
            r_next(r, &j.r, b, &mut tmp);
            sigs.push((g_next(g, j.g, b), tmp.clone()));
        }
        let mut reps: Vec<u8> = Vec::new();
        let mut b = 0usize;
        while b < 256 {
            let mut e = b;
            while e + 1 < 256 && sigs[e + 1] == sigs[b] {
                e += 1;
            }
            reps.push(b as u8);
            if e != b {
                reps.push(e as u8);
            }
            b = e + 1;
        }
        let has_self = g.states[j.g].normal.iter().any(|(_, n)| *n == j.g);
        for &b in &reps {
            for t in tails.iter() {
                if raw.len() >= cap_inputs {
                    break;
                }
                let mut x = w.clone();
                x.push(b);
                x.extend_from_slice(t);
                raw.push(x);
            }
            if has_self && g_next(g, j.g, b) == Some(j.g) {
                // fast-loop batch boundaries (unroll factor 8)
                for k in [6usize, 7, 8, 9, 16, 17] {
                    for &exit in reps.iter().take(6) {
                        if raw.len() >= cap_inputs {
                            break;
                        }
                        let mut x = w.clone();
                        x.extend(std::iter::repeat(b).take(k));
                        x.push(exit);
                        raw.push(x);
                    }
                    let mut x = w.clone();
                    x.extend(std::iter::repeat(b).take(k));
                    raw.push(x);
                }
            }
            // successor
            let (gn, rn) = &sigs[b as usize];
            if let Some(gn) = gn {
                let sd = &g.states[*gn];
                let ctx = sd.early.or(sd.accept).or(j.ctx);
                let nj = Joint { g: *gn, ctx, r: rn.clone() };
                if !seen.contains_key(&nj) {
                    if nodes.len() < cap_states {
                        seen.insert(nj.clone(), nodes.len());
                        nodes.push((nj, Some((i, b))));
                    } else {
                        stats.capped = true;
                    }
                }
            }
        }
        i += 1;
        if raw.len() >= cap_inputs {
            stats.capped = true;
            break;
        }
    }
    stats.joint_states = nodes.len();
    let mut out = Vec::new();
    let mut dedup = std::collections::HashSet::new();
    for x in raw {
        let x = if utf8 {
            match utf8_fixup(x) {
                Some(x) => x,
                None => {
                    stats.dropped_invalid_utf8 += 1;
                    continue;
                }
            }
        } else {
            x
        };
        if dedup.insert(x.clone()) {
            out.push(x);
        }
    }
    stats.inputs = out.len();
    (out, stats)
}

/// Random walk over the graph driven by proptest-generated choices.
pub fn walk_input(g: &GraphDump, choices: &[u16], alphabet: &[&[u8]], utf8: bool) -> Option<Vec<u8>> {
    let mut out = Vec::new();
    let mut s = g.root;
    for &c in choices {
        let edges = &g.states[s].normal;
        let k = edges.len();
        let idx = (c as usize * (k + 2)) >> 16;
        if idx < k {
            let (ranges, next) = &edges[idx];
            let total: usize = ranges.iter().map(|&(lo, hi)| (hi - lo) as usize + 1).sum();
            let mut off = ((c as usize & 0xff) * total) >> 8;
            let mut byte = ranges[0].0;
            for &(lo, hi) in ranges {
                let n = (hi - lo) as usize + 1;
                if off < n {
                    byte = lo + off as u8;
                    break;
                }
                off -= n;
            }
            out.push(byte);
            s = *next;
        } else if idx == k {
            let a = alphabet[(c as usize & 0xff) * alphabet.len() >> 8];
            out.extend_from_slice(a);
            s = g.root;
        } else {
            s = g.root;
        }
    }
    if utf8 {
        // a walk may stop inside a multi-byte char or the noise may follow a lead byte
        match utf8_fixup(out.clone()) {
            Some(v) => Some(v),
            None => Some(String::from_utf8_lossy(&out).into_owned().into_bytes()),
        }
    } else {
        Some(out)
    }
}
