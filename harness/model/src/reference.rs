//! Reference lexer built from the definition *source* only (never from logos' graph).
//!
//! Each pattern becomes a matcher: exact bytes for plain `#[token]`, otherwise an anchored dense DFA
//! (MatchKind::All, so every match end is visible) built from the pattern text with the flags the
//! attribute implies. Match ends are computed in context: the walk runs over the real following
//! bytes and the real end of input, so look-ahead assertions see what the lexer sees; nothing before
//! the token start is visible.

use std::collections::HashMap;

use regex_automata::dfa::{dense, Automaton, StartKind};
use regex_automata::nfa::thompson::{self, pikevm::PikeVM, NFA};
use regex_automata::util::primitives::StateID;
use regex_automata::util::start;
use regex_automata::{Anchored, Input, MatchKind};
use regex_syntax::hir::Hir;
use regex_syntax::ParserBuilder;

use crate::spec::{DefSpec, PatKind, PatSpec};

pub type Dfa = dense::DFA<Vec<u32>>;

pub struct RefDfa {
    pub dfa: Dfa,
    pub start: StateID,
    /// dense index of reachable states
    pub index: HashMap<StateID, usize>,
    pub ids: Vec<StateID>,
    /// a match state is reachable by a non-empty symbol path (bytes, then optionally end of input)
    pub live: Vec<bool>,
    /// a match ending strictly after the current position is reachable (path of >= 2 symbols)
    pub longer: Vec<bool>,
    /// representative byte of each byte class
    pub reps: Vec<u8>,
    pub hir: Hir,
}

pub fn parse_hir(pattern: &str, unicode: bool, icase: bool) -> Result<Hir, String> {
    ParserBuilder::new()
        .utf8(false)
        .unicode(unicode)
        .case_insensitive(icase)
        .build()
        .parse(pattern)
        .map_err(|e| e.to_string())
}

impl RefDfa {
    /// A longest string the pattern matches, when its language is finite (no live cycle) and that string has at most
    /// `cap` bytes: the token at its maximal length (`[0-9a-f]{1,300}` -> 300 digits, a keyword -> itself).
    pub fn longest_word(&self, cap: usize) -> Option<Vec<u8>> {
        let n = self.ids.len();
        // best[i]: (length of a longest accepted continuation from i, first byte of it); None = nothing accepted
        let mut best: Vec<Option<(usize, Option<u8>)>> = vec![None; n];
        let mut color = vec![0u8; n]; // 0 new, 1 on stack, 2 done
        // iterative depth-first search over live successors
        let mut stack: Vec<(usize, usize)> = vec![(0, 0)];
        color[0] = 1;
        while let Some(&mut (i, ref mut k)) = stack.last_mut() {
            let s = self.ids[i];
            if *k < self.reps.len() {
                let b = self.reps[*k];
                *k += 1;
                let t = self.dfa.next_state(s, b);
                if self.dfa.is_dead_state(t) {
                    continue;
                }
                let j = self.index[&t];
                if !self.live[j] && !self.dfa.is_match_state(self.dfa.next_eoi_state(t)) && !self.dfa.is_match_state(t) {
                    continue;
                }
                match color[j] {
                    0 => {
                        color[j] = 1;
                        stack.push((j, 0));
                    }
                    1 => {
                        // a cycle through states that can still reach a match: infinite language
                        if self.live[j] {
                            return None;
                        }
                    }
                    _ => {}
                }
            } else {
                // all successors done: combine
                let mut b_best: Option<(usize, Option<u8>)> = if self.dfa.is_match_state(self.dfa.next_eoi_state(s)) { Some((0, None)) } else { None };
                for &b in &self.reps {
                    let t = self.dfa.next_state(s, b);
                    if self.dfa.is_dead_state(t) {
                        continue;
                    }
                    let j = self.index[&t];
                    // a match flagged on entering t stands for a word ending before this byte: not an extension
                    if let Some((l, _)) = best[j] {
                        if b_best.map(|(m, _)| l + 1 > m).unwrap_or(true) {
                            b_best = Some((l + 1, Some(b)));
                        }
                    }
                }
                best[i] = b_best;
                color[i] = 2;
                stack.pop();
            }
        }
        let (len, _) = best[0]?;
        if len == 0 || len > cap {
            return None;
        }
        let mut out = Vec::with_capacity(len);
        let mut i = 0usize;
        while let Some((_, Some(b))) = best[i] {
            out.push(b);
            i = self.index[&self.dfa.next_state(self.ids[i], b)];
        }
        Some(out)
    }

    pub fn from_hir(hir: Hir) -> Result<RefDfa, String> {
        let nfa = NFA::compiler()
            .configure(thompson::Config::new().utf8(false).shrink(false))
            .build_from_hir(&hir)
            .map_err(|e| e.to_string())?;
        let dfa = dense::Builder::new()
            .configure(
                dense::Config::new()
                    .accelerate(false)
                    .minimize(false)
                    .byte_classes(true)
                    .match_kind(MatchKind::All)
                    .start_kind(StartKind::Anchored)
                    .dfa_size_limit(Some(64 << 20))
                    .determinize_size_limit(Some(64 << 20)),
            )
            .build_from_nfa(&nfa)
            .map_err(|e| e.to_string())?;
        let start = dfa
            .start_state(&start::Config::new().anchored(Anchored::Yes))
            .map_err(|e| e.to_string())?;

        // representatives of byte classes
        let mut reps = Vec::new();
        {
            let classes = dfa.byte_classes();
            let mut seen = vec![false; 257];
            for b in 0..=255u8 {
                let c = classes.get(b) as usize;
                if !seen[c] {
                    seen[c] = true;
                    reps.push(b);
                }
            }
        }

        // enumerate reachable states
        let mut index = HashMap::new();
        let mut ids = vec![start];
        index.insert(start, 0usize);
        let mut i = 0;
        while i < ids.len() {
            let s = ids[i];
            i += 1;
            let mut succ: Vec<StateID> = reps.iter().map(|&b| dfa.next_state(s, b)).collect();
            succ.push(dfa.next_eoi_state(s));
            for t in succ {
                if !index.contains_key(&t) {
                    index.insert(t, ids.len());
                    ids.push(t);
                }
            }
        }
        let n = ids.len();
        // live: least fixpoint
        let mut live = vec![false; n];
        let mut changed = true;
        // one-step: match reachable by exactly one symbol
        for (i, &s) in ids.iter().enumerate() {
            let mut l = dfa.is_match_state(dfa.next_eoi_state(s));
            for &b in &reps {
                if dfa.is_match_state(dfa.next_state(s, b)) {
                    l = true;
                }
            }
            live[i] = l;
        }
        while changed {
            changed = false;
            for (i, &s) in ids.iter().enumerate() {
                if live[i] {
                    continue;
                }
                for &b in &reps {
                    let t = dfa.next_state(s, b);
                    if live[index[&t]] {
                        live[i] = true;
                        changed = true;
                        break;
                    }
                }
            }
        }
        let mut longer = vec![false; n];
        for (i, &s) in ids.iter().enumerate() {
            for &b in &reps {
                let t = dfa.next_state(s, b);
                if live[index[&t]] {
                    longer[i] = true;
                    break;
                }
            }
        }
        Ok(RefDfa { dfa, start, index, ids, live, longer, reps, hir })
    }

    pub fn new(pattern: &str, unicode: bool, icase: bool) -> Result<RefDfa, String> {
        Self::from_hir(parse_hir(pattern, unicode, icase)?)
    }

    #[inline]
    pub fn idx(&self, s: StateID) -> usize {
        self.index[&s]
    }
}

pub enum Matcher {
    Exact(Vec<u8>),
    Dfa(Box<RefDfa>),
}

/// Result of running one pattern from position `p`.
#[derive(Clone, Debug, Default, PartialEq, Eq)]
pub struct PatRun {
    /// all non-empty match ends (absolute offsets), ascending
    pub ends: Vec<usize>,
    /// the pattern matches the empty string at `p` (in context)
    pub empty: bool,
    /// longest viable prefix length (bytes from `p`) — see module doc of C02
    pub viable: usize,
}

impl Matcher {
    pub fn run(&self, s: &[u8], p: usize) -> PatRun {
        match self {
            Matcher::Exact(w) => {
                let rest = &s[p..];
                let common = rest.iter().zip(w.iter()).take_while(|(a, b)| a == b).count();
                let mut r = PatRun { ends: vec![], empty: w.is_empty(), viable: common };
                if common == w.len() && !w.is_empty() {
                    r.ends.push(p + w.len());
                }
                r
            }
            Matcher::Dfa(d) => {
                let dfa = &d.dfa;
                let mut st = d.start;
                let mut r = PatRun::default();
                let mut dead = false;
                // viable(0) holds iff live[start]; we track the largest m with live[state after m bytes]
                let mut viable = 0usize;
                for (i, &b) in s[p..].iter().enumerate() {
                    st = dfa.next_state(st, b);
                    if dfa.is_match_state(st) {
                        if i == 0 {
                            r.empty = true;
                        } else {
                            r.ends.push(p + i);
                        }
                    }
                    if dfa.is_dead_state(st) {
                        dead = true;
                        break;
                    }
                    if d.live[d.idx(st)] {
                        viable = i + 1;
                    }
                }
                if !dead {
                    let e = dfa.next_eoi_state(st);
                    if dfa.is_match_state(e) {
                        if s.len() == p {
                            r.empty = true;
                        } else {
                            r.ends.push(s.len());
                        }
                    }
                }
                r.viable = viable;
                r
            }
        }
    }
}

/// One pattern of the reference lexer.
pub struct RefPat {
    pub matcher: Matcher,
    /// regex text + flags the matcher was built from (None for exact literals)
    pub regex: Option<(String, bool, bool)>,
    pub is_skip: bool,
    pub variant: Option<usize>,
}

pub struct RefLexer {
    pub utf8: bool,
    pub pats: Vec<RefPat>,
}

/// The harness' own escaping of a literal for use under the case-insensitive flag: every
/// non-alphanumeric ASCII char is written `\xHH`, non-ASCII chars `\x{...}` (alphanumerics verbatim).
/// Deliberately not `regex_syntax::escape`, which is what logos calls.
pub fn own_escape(value: &[u8], unicode: bool) -> String {
    let mut s = String::new();
    if unicode {
        for c in std::str::from_utf8(value).expect("str literal").chars() {
            if c.is_ascii_alphanumeric() {
                s.push(c);
            } else {
                s.push_str(&format!("\\x{{{:X}}}", c as u32));
            }
        }
    } else {
        for &b in value {
            if b.is_ascii_alphanumeric() {
                s.push(b as char);
            } else {
                s.push_str(&format!("\\x{b:02X}"));
            }
        }
    }
    s
}

/// Reference text of a pattern: (regex text, unicode, icase) or None when it is an exact literal.
/// `inline` selects the AST-inlined twin when the pattern has subpattern references.
pub fn pattern_regex(p: &PatSpec, is_skip: bool) -> Option<(String, bool, bool)> {
    let lit = p.inlined.as_ref().unwrap_or(&p.lit);
    if p.kind == PatKind::Token && !is_skip {
        if !p.ignore_case {
            return None;
        }
        return Some((own_escape(&lit.value(), !lit.bytes), !lit.bytes, true));
    }
    let (text, unicode) = lit.as_regex();
    Some((text, unicode, p.ignore_case))
}

/// Generator-side cost gate: every regex pattern of the definition (inlined twin when it has subpattern references) must
/// determinize within `limit` bytes of DFA. Patterns beyond that (nested counted repetitions of wide classes overlapping
/// multi-byte classes) make logos' own determinization take minutes; they are outside the budget of a generated case, not
/// a verdict. Unparsable patterns pass (the derive rejects them at once).
pub fn cost_ok(def: &DefSpec, limit: usize) -> bool {
    for (p, variant) in def.leaves() {
        let Some((text, unicode, icase)) = pattern_regex(p, variant.is_none()) else { continue };
        let Ok(hir) = parse_hir(&text, unicode, icase) else { continue };
        let Ok(nfa) = NFA::compiler().configure(thompson::Config::new().utf8(false).shrink(false).nfa_size_limit(Some(limit))).build_from_hir(&hir) else {
            return false;
        };
        let built = dense::Builder::new()
            .configure(
                dense::Config::new()
                    .accelerate(false)
                    .minimize(false)
                    .byte_classes(true)
                    .match_kind(MatchKind::All)
                    .start_kind(StartKind::Anchored)
                    .dfa_size_limit(Some(limit))
                    .determinize_size_limit(Some(limit)),
            )
            .build_from_nfa(&nfa);
        if built.is_err() {
            return false;
        }
    }
    true
}

impl RefLexer {
    pub fn build(def: &DefSpec) -> Result<RefLexer, String> {
        let mut pats = Vec::new();
        for (p, variant) in def.leaves() {
            let is_skip = variant.is_none();
            let regex = pattern_regex(p, is_skip);
            let matcher = match &regex {
                None => Matcher::Exact(p.lit.value()),
                Some((text, unicode, icase)) => Matcher::Dfa(Box::new(
                    RefDfa::new(text, *unicode, *icase).map_err(|e| format!("reference build of {text:?}: {e}"))?,
                )),
            };
            pats.push(RefPat { matcher, regex, is_skip, variant });
        }
        Ok(RefLexer { utf8: def.utf8, pats })
    }

    /// Evaluate one match attempt at `p` with the given priorities.
    pub fn attempt(&self, s: &[u8], p: usize, prio: &[usize]) -> Attempt {
        let runs: Vec<PatRun> = self.pats.iter().map(|pt| pt.matcher.run(s, p)).collect();
        let best = runs.iter().filter_map(|r| r.ends.last().copied()).max();
        let viable = runs.iter().map(|r| r.viable).max().unwrap_or(0);
        let n_matching = runs.iter().filter(|r| !r.ends.is_empty()).count();
        match best {
            Some(end) => {
                let at_end: Vec<usize> =
                    (0..runs.len()).filter(|&i| runs[i].ends.contains(&end)).collect();
                let top = at_end.iter().map(|&i| prio[i]).max().unwrap();
                let winners: Vec<usize> = at_end.iter().copied().filter(|&i| prio[i] == top).collect();
                Attempt { start: p, verdict: Verdict::Match { end, winners, at_end }, viable, n_matching, runs }
            }
            None => {
                let mut end = (p + viable).max(p + 1);
                if self.utf8 {
                    while end < s.len() && (s[end] & 0xC0) == 0x80 {
                        end += 1;
                    }
                }
                Attempt { start: p, verdict: Verdict::Error { end }, viable, n_matching, runs }
            }
        }
    }
}

impl RefLexer {
    /// Partial-mode determinedness (C07): with the buffer `s[..k]` and a match attempt started at `p`
    /// (p <= k), must the lexer wait for more input? True iff a match ending strictly after `k` is
    /// still reachable for some pattern, or the outcome at `k` differs between two of the 257 next
    /// symbols (256 bytes + end of input).
    pub fn wait(&self, s: &[u8], p: usize, k: usize, prio: &[usize]) -> bool {
        // best confirmed match ending before k, per pattern states at k
        let mut before: Option<(usize, Vec<usize>)> = None; // (end, patterns)
        let note = |end: usize, i: usize, before: &mut Option<(usize, Vec<usize>)>| match before {
            Some((e, v)) if *e == end => v.push(i),
            Some((e, _)) if *e > end => {}
            _ => *before = Some((end, vec![i])),
        };
        enum St<'a> {
            Dead,
            Exact(&'a [u8], usize),
            Dfa(&'a RefDfa, regex_automata::util::primitives::StateID),
        }
        let mut states: Vec<St> = Vec::new();
        for (i, pt) in self.pats.iter().enumerate() {
            match &pt.matcher {
                Matcher::Exact(w) => {
                    let have = &s[p..k];
                    if have.len() <= w.len() && w[..have.len()] == *have {
                        states.push(St::Exact(w, have.len()));
                    } else {
                        if have.len() > w.len() && have[..w.len()] == w[..] && !w.is_empty() {
                            note(p + w.len(), i, &mut before);
                        }
                        states.push(St::Dead);
                    }
                }
                Matcher::Dfa(d) => {
                    let mut st = d.start;
                    let mut dead = false;
                    for (j, &b) in s[p..k].iter().enumerate() {
                        st = d.dfa.next_state(st, b);
                        if d.dfa.is_match_state(st) && j > 0 {
                            note(p + j, i, &mut before);
                        }
                        if d.dfa.is_dead_state(st) {
                            dead = true;
                            break;
                        }
                    }
                    states.push(if dead { St::Dead } else { St::Dfa(d, st) });
                }
            }
        }
        // a longer match reachable?
        for st in &states {
            match st {
                St::Dead => {}
                St::Exact(w, c) => {
                    if *c < w.len() {
                        return true;
                    }
                }
                St::Dfa(d, st) => {
                    if d.longer[d.idx(*st)] {
                        return true;
                    }
                }
            }
        }
        if k == p {
            // nothing read yet and nothing can match: the error needs at least one byte
            return true;
        }
        // outcome at k per next symbol
        let winner = |set: &[usize]| -> Vec<usize> {
            let top = set.iter().map(|&i| prio[i]).max().unwrap();
            set.iter().copied().filter(|&i| prio[i] == top).collect()
        };
        let fallback: Option<(usize, Vec<usize>)> = before.as_ref().map(|(e, v)| (*e, winner(v)));
        let mut first: Option<Option<(usize, Vec<usize>)>> = None;
        for sym in 0..=256usize {
            let mut m: Vec<usize> = Vec::new();
            for (i, st) in states.iter().enumerate() {
                match st {
                    St::Dead => {}
                    St::Exact(w, c) => {
                        if *c == w.len() && !w.is_empty() {
                            m.push(i);
                        }
                    }
                    St::Dfa(d, st) => {
                        let t = if sym < 256 { d.dfa.next_state(*st, sym as u8) } else { d.dfa.next_eoi_state(*st) };
                        if d.dfa.is_match_state(t) {
                            m.push(i);
                        }
                    }
                }
            }
            let outcome = if m.is_empty() { fallback.clone() } else { Some((k, winner(&m))) };
            match &first {
                None => first = Some(outcome),
                Some(f) => {
                    if *f != outcome {
                        return true;
                    }
                }
            }
        }
        false
    }

    pub fn has_lookaround(&self) -> bool {
        fn look(h: &Hir) -> bool {
            use regex_syntax::hir::HirKind;
            match h.kind() {
                HirKind::Look(_) => true,
                HirKind::Repetition(r) => look(&r.sub),
                HirKind::Capture(c) => look(&c.sub),
                HirKind::Concat(v) | HirKind::Alternation(v) => v.iter().any(look),
                _ => false,
            }
        }
        self.pats.iter().any(|p| match &p.matcher {
            Matcher::Dfa(d) => look(&d.hir),
            _ => false,
        })
    }
}

#[derive(Clone, Debug, PartialEq, Eq)]
pub enum Verdict {
    /// longest match ends at `end`; `winners` = top-priority patterns among those matching exactly
    /// `end` (more than one = a tie the derive should have rejected)
    Match { end: usize, winners: Vec<usize>, at_end: Vec<usize> },
    Error { end: usize },
}

#[derive(Clone, Debug)]
pub struct Attempt {
    pub start: usize,
    pub verdict: Verdict,
    pub viable: usize,
    pub n_matching: usize,
    pub runs: Vec<PatRun>,
}

/// Cross-validation of the DFA walk against PikeVM (in context) — used to self-validate the oracle.
pub fn pikevm_ends(hir: &Hir, s: &[u8], p: usize) -> Vec<usize> {
    let nfa = NFA::compiler()
        .configure(thompson::Config::new().utf8(false))
        .build_from_hir(hir)
        .expect("nfa");
    let vm = PikeVM::builder()
        .configure(regex_automata::nfa::thompson::pikevm::Config::new().match_kind(MatchKind::All))
        .build_from_nfa(nfa)
        .expect("pikevm");
    let hay = &s[p..];
    let mut cache = vm.create_cache();
    let mut out = Vec::new();
    for e in 1..=hay.len() {
        let input = Input::new(hay).span(0..e).anchored(Anchored::Yes);
        // longest match within the span, with look-ahead seeing bytes beyond the span
        let mut caps = vm.create_captures();
        vm.search(&mut cache, &input, &mut caps);
        if let Some(m) = caps.get_match() {
            if m.end() == e {
                out.push(p + e);
            }
        }
    }
    out
}
