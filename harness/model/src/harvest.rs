//! Harvested family: the lexer definitions that ship with the repository under test (tests, benches, examples, the
//! book, codegen test data), read with syn at check time and reduced to their *automaton*: every `#[token]` /
//! `#[regex]` / `skip` pattern with its priority, `ignore(case)` and `allow_greedy` arguments, subpatterns and the
//! `utf8` item; callbacks, extras, error types and variant payloads are dropped (they cannot change which pattern
//! matches). These are the realistic, larger definitions (dozens of leaves, Unicode classes, keyword / identifier
//! overlaps) the random generator does not draw; the pinned suite exercises each of them on a handful of inputs,
//! the checks lex them on covering and random inputs against the reference.

use std::path::{Path, PathBuf};

use proc_macro2::{Delimiter, TokenStream, TokenTree};

use crate::spec::{DefSpec, LitSpec, PatSpec, SubSpec};

#[derive(Clone, Debug)]
pub struct Harvested {
    /// `<file relative to the repository>::<enum name>#<ordinal in file>`
    pub origin: String,
    pub def: DefSpec,
    /// callbacks / payload-carrying variants that were reduced to plain unit variants
    pub reduced: usize,
}

/// Location of the repository under test.
pub fn repo_root() -> PathBuf {
    PathBuf::from(std::env::var("VERIF_REPO").unwrap_or_else(|_| "/repo".to_string()))
}

fn rs_files(dir: &Path, out: &mut Vec<PathBuf>, exts: &[&str]) {
    let Ok(rd) = std::fs::read_dir(dir) else { return };
    let mut entries: Vec<PathBuf> = rd.filter_map(|e| e.ok().map(|e| e.path())).collect();
    entries.sort();
    for p in entries {
        if p.is_dir() {
            if p.file_name().map(|n| n == "target").unwrap_or(false) {
                continue;
            }
            rs_files(&p, out, exts);
        } else if let Some(e) = p.extension().and_then(|e| e.to_str()) {
            if exts.contains(&e) {
                out.push(p);
            }
        }
    }
}

/// ```rust fenced blocks of a markdown file
fn md_blocks(text: &str) -> Vec<String> {
    let mut out = Vec::new();
    let mut cur: Option<String> = None;
    for line in text.lines() {
        let t = line.trim_start();
        if let Some(c) = cur.as_mut() {
            if t.starts_with("```") {
                out.push(cur.take().unwrap());
            } else {
                c.push_str(line);
                c.push('\n');
            }
        } else if t.starts_with("```rust") || t == "```rs" {
            cur = Some(String::new());
        }
    }
    out
}

fn collect_enums(items: &[syn::Item], out: &mut Vec<syn::ItemEnum>) {
    for it in items {
        match it {
            syn::Item::Enum(e) => out.push(e.clone()),
            syn::Item::Mod(m) => {
                if let Some((_, items)) = &m.content {
                    collect_enums(items, out);
                }
            }
            syn::Item::Fn(f) => collect_block(&f.block, out),
            _ => {}
        }
    }
}

fn collect_block(b: &syn::Block, out: &mut Vec<syn::ItemEnum>) {
    for st in &b.stmts {
        if let syn::Stmt::Item(it) = st {
            collect_enums(std::slice::from_ref(it), out);
        }
    }
}

fn derives_logos(e: &syn::ItemEnum) -> bool {
    e.attrs.iter().any(|a| {
        a.path().is_ident("derive") && {
            let mut found = false;
            let _ = a.parse_nested_meta(|m| {
                if m.path.segments.last().map(|s| s.ident == "Logos").unwrap_or(false) {
                    found = true;
                }
                Ok(())
            });
            found
        }
    })
}

/// top-level comma split
fn split_args(ts: TokenStream) -> Vec<Vec<TokenTree>> {
    let mut out = vec![Vec::new()];
    for tt in ts {
        match &tt {
            TokenTree::Punct(p) if p.as_char() == ',' => out.push(Vec::new()),
            _ => out.last_mut().unwrap().push(tt),
        }
    }
    if out.last().map(|v| v.is_empty()).unwrap_or(false) {
        out.pop();
    }
    out
}

fn lit_of(tt: &TokenTree) -> Option<LitSpec> {
    let TokenTree::Literal(l) = tt else { return None };
    match syn::Lit::new(l.clone()) {
        syn::Lit::Str(s) => Some(LitSpec::str(s.value())),
        syn::Lit::ByteStr(b) => Some(LitSpec::bytes(b.value())),
        _ => None,
    }
}

fn ident_is(tt: &TokenTree, name: &str) -> bool {
    matches!(tt, TokenTree::Ident(i) if i == name)
}

/// `"lit" [, args]*` -> pattern; None when a part is not understood (the whole enum is then left out).
/// `.1` = a callback was dropped.
fn pattern_of(args: Vec<Vec<TokenTree>>, mut p: PatSpec) -> Option<(PatSpec, bool)> {
    let mut dropped = false;
    for a in args.into_iter().skip(1) {
        if a.is_empty() {
            continue;
        }
        if ident_is(&a[0], "priority") && a.len() == 3 {
            let TokenTree::Literal(l) = &a[2] else { return None };
            p.priority = Some(l.to_string().parse().ok()?);
        } else if ident_is(&a[0], "ignore") && a.len() == 2 {
            let TokenTree::Group(g) = &a[1] else { return None };
            let flags = split_args(g.stream());
            for f in flags {
                if f.len() == 1 && ident_is(&f[0], "case") {
                    p.ignore_case = true;
                } else {
                    return None;
                }
            }
        } else if ident_is(&a[0], "allow_greedy") && a.len() == 3 {
            p.allow_greedy = ident_is(&a[2], "true");
        } else {
            // positional callback or `callback = ..`
            dropped = true;
        }
    }
    Some((p, dropped))
}

fn def_of(e: &syn::ItemEnum) -> Option<(DefSpec, usize)> {
    let mut def = DefSpec { utf8: true, subpatterns: vec![], skips: vec![], variants: vec![] };
    let mut reduced = 0usize;
    for a in &e.attrs {
        if !a.path().is_ident("logos") {
            continue;
        }
        let syn::Meta::List(ml) = &a.meta else { continue };
        for item in split_args(ml.tokens.clone()) {
            if item.is_empty() {
                continue;
            }
            if ident_is(&item[0], "skip") {
                match item.get(1) {
                    Some(TokenTree::Group(g)) if g.delimiter() == Delimiter::Parenthesis => {
                        let args = split_args(g.stream());
                        let lit = lit_of(args.first()?.first()?)?;
                        if args[0].len() != 1 {
                            return None;
                        }
                        let (p, d) = pattern_of(args, PatSpec::regex(lit))?;
                        reduced += d as usize;
                        def.skips.push(p);
                    }
                    Some(tt) => def.skips.push(PatSpec::regex(lit_of(tt)?)),
                    None => return None,
                }
            } else if ident_is(&item[0], "subpattern") {
                // subpattern name = "lit"
                let TokenTree::Ident(name) = item.get(1)? else { return None };
                let lit = lit_of(item.get(3)?)?;
                def.subpatterns.push(SubSpec { name: name.to_string(), lit, inlined: None });
            } else if ident_is(&item[0], "utf8") {
                def.utf8 = !ident_is(item.get(2)?, "false");
            } else if ident_is(&item[0], "source") {
                // `source = [u8]` style items of older versions: leave such enums out
                return None;
            }
        }
    }
    for v in &e.variants {
        let mut pats = Vec::new();
        for a in &v.attrs {
            let kind = if a.path().is_ident("token") {
                0
            } else if a.path().is_ident("regex") {
                1
            } else {
                continue;
            };
            let syn::Meta::List(ml) = &a.meta else { return None };
            let args = split_args(ml.tokens.clone());
            let first = args.first()?;
            if first.len() != 1 {
                return None;
            }
            let lit = lit_of(&first[0])?;
            let base = if kind == 0 { PatSpec::token(lit) } else { PatSpec::regex(lit) };
            let (p, d) = pattern_of(args, base)?;
            reduced += d as usize;
            pats.push(p);
        }
        if !matches!(v.fields, syn::Fields::Unit) {
            reduced += 1;
        }
        if !pats.is_empty() {
            def.variants.push(pats);
        }
    }
    if def.variants.is_empty() {
        return None;
    }
    Some((def, reduced))
}

/// Own textual inlining of `(?&name)` references (str subpattern -> `(?u:..)`, byte-string subpattern -> `(?-u:..)`),
/// innermost definitions first; fills the `inlined` fields the reference lexer reads. None on an undefined name.
fn inline_refs(def: &mut DefSpec) -> Option<()> {
    fn subst(text: &str, subs: &[(String, String)]) -> Option<String> {
        let mut out = String::new();
        let mut rest = text;
        while let Some(i) = rest.find("(?&") {
            out.push_str(&rest[..i]);
            let tail = &rest[i + 3..];
            let j = tail.find(')')?;
            let name = &tail[..j];
            let body = &subs.iter().find(|(n, _)| n == name)?.1;
            out.push_str(body);
            rest = &tail[j + 1..];
        }
        out.push_str(rest);
        Some(out)
    }
    let mut done: Vec<(String, String)> = Vec::new();
    // definitions may refer to each other in any order: iterate until all are resolved
    let mut pending: Vec<usize> = (0..def.subpatterns.len()).collect();
    let mut progress = true;
    while !pending.is_empty() && progress {
        progress = false;
        let mut still = Vec::new();
        for &i in &pending {
            let (src, uni) = def.subpatterns[i].lit.as_regex();
            match subst(&src, &done) {
                Some(s) => {
                    let wrapped = if uni { format!("(?u:{s})") } else { format!("(?-u:{s})") };
                    done.push((def.subpatterns[i].name.clone(), wrapped));
                    def.subpatterns[i].inlined = Some(if def.subpatterns[i].lit.bytes { LitSpec::bytes(s.into_bytes()) } else { LitSpec::str(s) });
                    progress = true;
                }
                None => still.push(i),
            }
        }
        pending = still;
    }
    if !pending.is_empty() {
        return None;
    }
    let has_ref = |p: &PatSpec| !p.lit.bytes && p.lit.text.contains("(?&") || p.lit.bytes && p.lit.raw.windows(3).any(|w| w == b"(?&");
    for p in def.skips.iter_mut().chain(def.variants.iter_mut().flatten()) {
        if p.kind == crate::spec::PatKind::Token || !has_ref(p) {
            continue;
        }
        if p.lit.bytes {
            // a byte-string pattern with references: the substituted text need not be a str; leave such enums out
            return None;
        }
        p.inlined = Some(LitSpec::str(subst(&p.lit.text, &done)?));
    }
    Some(())
}

/// All definitions found under the repository, in a deterministic order (sorted paths, source order).
pub fn harvest() -> Vec<Harvested> {
    let root = repo_root();
    let mut files = Vec::new();
    for sub in ["tests/tests", "tests/benches", "examples", "logos-codegen/tests/data", "logos-cli/tests/data", "book/src"] {
        rs_files(&root.join(sub), &mut files, &["rs", "md"]);
    }
    files.push(root.join("README.md"));
    let mut out = Vec::new();
    for f in files {
        let Ok(text) = std::fs::read_to_string(&f) else { continue };
        let rel = f.strip_prefix(&root).unwrap_or(&f).display().to_string();
        let sources: Vec<String> = if rel.ends_with(".md") { md_blocks(&text) } else { vec![text] };
        let mut ordinal = 0usize;
        for src in sources {
            let Ok(file) = syn::parse_file(&src) else { continue };
            let mut enums = Vec::new();
            collect_enums(&file.items, &mut enums);
            for e in enums {
                if !derives_logos(&e) {
                    continue;
                }
                ordinal += 1;
                let Some((mut def, reduced)) = def_of(&e) else { continue };
                if inline_refs(&mut def).is_none() {
                    continue;
                }
                // the book and the tests repeat some definitions: keep the first copy
                if out.iter().any(|h: &Harvested| h.def == def) {
                    continue;
                }
                out.push(Harvested { origin: format!("{rel}::{}#{ordinal}", e.ident), def, reduced });
            }
        }
    }
    out
}

/// The same enums as source text (token rendering of the whole item, callbacks, payloads and all attributes kept), for the
/// checks that take enum sources rather than automata (C16 determinism, C17 logos-cli, C19 panic freedom). Includes the
/// suite's must-fail definitions.
pub fn harvest_raw() -> Vec<(String, String)> {
    use quote::ToTokens;
    let root = repo_root();
    let mut files = Vec::new();
    for sub in ["tests/tests", "tests/benches", "examples", "logos-codegen/tests/data", "logos-cli/tests/data", "book/src"] {
        rs_files(&root.join(sub), &mut files, &["rs", "md"]);
    }
    files.push(root.join("README.md"));
    let mut out: Vec<(String, String)> = Vec::new();
    for f in files {
        let Ok(text) = std::fs::read_to_string(&f) else { continue };
        let rel = f.strip_prefix(&root).unwrap_or(&f).display().to_string();
        let sources: Vec<String> = if rel.ends_with(".md") { md_blocks(&text) } else { vec![text] };
        let mut ordinal = 0usize;
        for src in sources {
            let Ok(file) = syn::parse_file(&src) else { continue };
            let mut enums = Vec::new();
            collect_enums(&file.items, &mut enums);
            for e in enums {
                if !derives_logos(&e) {
                    continue;
                }
                ordinal += 1;
                let text = e.to_token_stream().to_string();
                if out.iter().any(|(_, t)| *t == text) {
                    continue;
                }
                out.push((format!("{rel}::{}#{ordinal}", e.ident), text));
            }
        }
    }
    out
}
