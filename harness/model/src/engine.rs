//! Input engine shared by tier G and tier X: covering inputs first (plain loop), then proptest-driven
//! random inputs (walks over the captured graph + noise); greedy input shrinking for replay files.

use proptest::collection::vec;
use proptest::prelude::*;
use proptest::strategy::ValueTree;
use proptest::test_runner::{Config, RngSeed, TestRunner};

use crate::cover::{covering_inputs, walk_input};
use crate::judge::Finding;
use crate::prep::Prepared;
use crate::run::{drive, DriveResult, Run};
use crate::spec::DefSpec;

pub const ALPHABET: &[&[u8]] = &[
    b"a", b"b", b"c", b"x", b"0", b"1", b"-", b"_", b".", b"*", b" ", b"\n", "é".as_bytes(), "ß".as_bytes(), "λ".as_bytes(), "σ".as_bytes(),
    "ς".as_bytes(), "Σ".as_bytes(), "\u{212A}".as_bytes(), "ſ".as_bytes(), "日".as_bytes(), "😀".as_bytes(), b"A", b"k", b"s", b"z", b"9", b"e",
    "\u{a0}".as_bytes(), "\u{2003}".as_bytes(), "٣".as_bytes(), b"[", b"]", b"(", "\u{feff}".as_bytes(),
];
pub const BYTE_NOISE: &[&[u8]] = &[b"\x00", b"\x7f", b"\x80", b"\xC3", b"\xA9", b"\xFF", b"\xE6", b"\xF0\x9F"];

#[derive(Clone, Debug)]
pub enum RandInput {
    Walk(Vec<u16>),
    Noise(Vec<u8>),
    /// walk, then noise, then walk
    Mixed(Vec<u16>, Vec<u8>, Vec<u16>),
}

pub fn rand_input_strategy(max_len: usize) -> BoxedStrategy<RandInput> {
    prop_oneof![
        5 => vec(any::<u16>(), 0..max_len).prop_map(RandInput::Walk),
        2 => vec(any::<u8>(), 0..max_len / 2).prop_map(RandInput::Noise),
        3 => (vec(any::<u16>(), 0..max_len / 2), vec(any::<u8>(), 0..4), vec(any::<u16>(), 0..max_len / 2)).prop_map(|(a, b, c)| RandInput::Mixed(a, b, c)),
    ]
    .boxed()
}

pub fn noise_input(idx: &[u8], utf8: bool) -> Vec<u8> {
    let mut out = Vec::new();
    for &i in idx {
        let n = ALPHABET.len() + if utf8 { 0 } else { BYTE_NOISE.len() };
        let k = (i as usize * n) >> 8;
        if k < ALPHABET.len() {
            out.extend_from_slice(ALPHABET[k]);
        } else {
            out.extend_from_slice(BYTE_NOISE[k - ALPHABET.len()]);
        }
    }
    out
}

pub fn realize(p: &Prepared, def: &DefSpec, r: &RandInput) -> Vec<u8> {
    match r {
        RandInput::Walk(w) => walk_input(&p.graph, w, ALPHABET, def.utf8).unwrap_or_default(),
        RandInput::Noise(n) => noise_input(n, def.utf8),
        RandInput::Mixed(a, n, b) => {
            let mut v = walk_input(&p.graph, a, ALPHABET, def.utf8).unwrap_or_default();
            v.extend(noise_input(n, def.utf8));
            v.extend(walk_input(&p.graph, b, ALPHABET, def.utf8).unwrap_or_default());
            if def.utf8 && std::str::from_utf8(&v).is_err() {
                v = String::from_utf8_lossy(&v).into_owned().into_bytes();
            }
            v
        }
    }
}

/// Deterministic input list: covering inputs + `n_random` random inputs (no shrinking involved).
pub fn fixed_inputs(p: &Prepared, def: &DefSpec, caps: (usize, usize), n_random: usize, seed: u64, run: Option<&mut Run>) -> Vec<Vec<u8>> {
    let (mut inputs, cs) = covering_inputs(&p.graph, &p.reflex, def.utf8, caps.0, caps.1);
    if let Some(run) = run {
        run.count("cover_joint_states", cs.joint_states as u64);
        run.count("cover_inputs", cs.inputs as u64);
        if cs.capped {
            run.count("cover_capped_defs", 1);
        }
        run.count("cover_dropped_invalid_utf8", cs.dropped_invalid_utf8 as u64);
    }
    inputs.push(Vec::new());
    // every pattern with a finite language at its maximal length (counted repetitions at their upper bound), alone and
    // followed by one more byte: the covering walk is capped and gives shortest witnesses only
    for pat in &p.reflex.pats {
        let longest = match &pat.matcher {
            crate::reference::Matcher::Dfa(d) => d.longest_word(1024),
            // a plain literal token is its own longest word
            crate::reference::Matcher::Exact(w) => Some(w.clone()),
        };
        {
            if let Some(w) = longest {
                if w.len() >= 8 && (!def.utf8 || std::str::from_utf8(&w).is_ok()) {
                    for tail in [&b""[..], b" ", b"a", b"0"] {
                        let mut v = w.clone();
                        v.extend_from_slice(tail);
                        inputs.push(v);
                    }
                }
            }
        }
    }
    // a byte order mark at the very start of the input is text like any other
    inputs.push("\u{feff}".as_bytes().to_vec());
    if let Some(first) = inputs.iter().find(|i| !i.is_empty() && i.len() < 12).cloned() {
        let mut v = "\u{feff}".as_bytes().to_vec();
        v.extend(first);
        inputs.push(v);
    }
    let mut runner = TestRunner::new(Config { rng_seed: RngSeed::Fixed(seed), failure_persistence: None, ..Config::default() });
    let strat = rand_input_strategy(40);
    for _ in 0..n_random {
        let r = strat.new_tree(&mut runner).unwrap().current();
        inputs.push(realize(p, def, &r));
    }
    inputs
}

/// Greedy shrink of a failing input (removing 4/3/2/1-byte windows), keeping str inputs valid UTF-8.
pub fn shrink_input(utf8: bool, input: &[u8], fails: &dyn Fn(&[u8]) -> bool) -> Vec<u8> {
    let mut cur = input.to_vec();
    if !fails(&cur) {
        return cur;
    }
    let mut progress = true;
    while progress {
        progress = false;
        let mut i = 0;
        while i < cur.len() {
            for width in [8usize, 4, 3, 2, 1] {
                if i + width <= cur.len() {
                    let mut c = cur.clone();
                    c.drain(i..i + width);
                    if utf8 && std::str::from_utf8(&c).is_err() {
                        continue;
                    }
                    if fails(&c) {
                        cur = c;
                        progress = true;
                        break;
                    }
                }
            }
            i += 1;
        }
    }
    cur
}

/// Run covering inputs then `cases` proptest inputs through `check`; on a finding returns the
/// (shrunk) input with its findings.
pub fn run_inputs(
    p: &Prepared,
    def: &DefSpec,
    caps: (usize, usize),
    cases: u32,
    seed: u64,
    run: &mut Run,
    check: &dyn Fn(&[u8], Option<&mut Run>) -> Vec<Finding>,
) -> Option<(Vec<u8>, Vec<Finding>)> {
    let fixed = fixed_inputs(p, def, caps, 0, seed, Some(run));
    let fails = |i: &[u8]| !check(i, None).is_empty();
    for input in &fixed {
        let f = check(input, Some(run));
        if !f.is_empty() {
            run.frozen = true;
            let m = shrink_input(def.utf8, input, &fails);
            let f2 = check(&m, None);
            return Some(if f2.is_empty() { (input.clone(), f) } else { (m, f2) });
        }
    }
    let strat = rand_input_strategy(48);
    let res = drive(&strat, cases, seed, 300, run, |r, run| {
        let input = realize(p, def, r);
        let f = check(&input, Some(run));
        if f.is_empty() {
            Ok(())
        } else {
            Err(f[0].what.clone())
        }
    });
    match res {
        DriveResult::Pass => None,
        DriveResult::Fail(r) => {
            let input = realize(p, def, &r);
            let m = shrink_input(def.utf8, &input, &fails);
            let f = check(&m, None);
            Some((m, f))
        }
        DriveResult::Abort(m) => panic!("proptest aborted: {m}"),
    }
}
