//! proptest strategies for definitions. All randomness comes from proptest.

use proptest::collection::vec;
use proptest::prelude::*;
use proptest::sample::select;

use crate::spec::{DefSpec, LitSpec, PatSpec};

#[derive(Clone, Debug, PartialEq, Eq)]
pub enum Ast {
    /// literal chars (rendered escaped)
    Lit(String),
    /// raw byte `\xNN` (only meaningful in byte mode)
    Byte(u8),
    /// class / dot, rendered verbatim
    Class(&'static str),
    Cat(Vec<Ast>),
    Alt(Vec<Ast>),
    Rep(Box<Ast>, Rep),
    Group(Box<Ast>, &'static str),
    Look(&'static str),
    Ref(String),
}

#[derive(Clone, Copy, Debug, PartialEq, Eq)]
pub struct Rep {
    pub min: u32,
    pub max: Option<u32>,
    pub lazy: bool,
    /// render `{m,n}` form even where `*`, `+`, `?` would do
    pub counted: bool,
}

pub fn escape_char(c: char, out: &mut String) {
    match c {
        '\\' | '.' | '+' | '*' | '?' | '(' | ')' | '|' | '[' | ']' | '{' | '}' | '^' | '$' | '#' | '&' | '-' | '~' => {
            out.push('\\');
            out.push(c);
        }
        ' ' => out.push_str("\\x20"),
        '\n' => out.push_str("\\n"),
        '\t' => out.push_str("\\t"),
        '\r' => out.push_str("\\r"),
        c => out.push(c),
    }
}

impl Ast {
    pub fn nullable(&self) -> bool {
        match self {
            Ast::Lit(s) => s.is_empty(),
            Ast::Byte(_) | Ast::Class(_) => false,
            Ast::Cat(v) => v.iter().all(|a| a.nullable()),
            Ast::Alt(v) => v.iter().any(|a| a.nullable()),
            Ast::Rep(sub, r) => r.min == 0 || sub.nullable(),
            Ast::Group(sub, _) => sub.nullable(),
            Ast::Look(_) => true,
            // references are resolved by the caller; treat as non-nullable (subpattern bodies are generated non-nullable)
            Ast::Ref(_) => false,
        }
    }

    fn atomic(&self) -> bool {
        match self {
            Ast::Lit(s) => s.chars().count() == 1,
            Ast::Byte(_) | Ast::Class(_) | Ast::Group(..) | Ast::Ref(_) => true,
            _ => false,
        }
    }

    pub fn render(&self, out: &mut String) {
        match self {
            Ast::Lit(s) => {
                for c in s.chars() {
                    escape_char(c, out);
                }
            }
            Ast::Byte(b) => out.push_str(&format!("\\x{b:02X}")),
            Ast::Class(c) => out.push_str(c),
            Ast::Cat(v) => {
                for a in v {
                    if matches!(a, Ast::Alt(_)) {
                        out.push_str("(?:");
                        a.render(out);
                        out.push(')');
                    } else {
                        a.render(out);
                    }
                }
            }
            Ast::Alt(v) => {
                for (i, a) in v.iter().enumerate() {
                    if i > 0 {
                        out.push('|');
                    }
                    a.render(out);
                }
            }
            Ast::Rep(sub, r) => {
                if sub.atomic() {
                    sub.render(out);
                } else {
                    out.push_str("(?:");
                    sub.render(out);
                    out.push(')');
                }
                match (r.min, r.max, r.counted) {
                    (0, None, false) => out.push('*'),
                    (1, None, false) => out.push('+'),
                    (0, Some(1), false) => out.push('?'),
                    (m, None, _) => out.push_str(&format!("{{{m},}}")),
                    (m, Some(n), _) if m == n => out.push_str(&format!("{{{m}}}")),
                    (m, Some(n), _) => out.push_str(&format!("{{{m},{n}}}")),
                }
                if r.lazy {
                    out.push('?');
                }
            }
            Ast::Group(sub, kind) => {
                out.push_str(kind);
                sub.render(out);
                out.push(')');
            }
            Ast::Look(l) => out.push_str(l),
            Ast::Ref(name) => out.push_str(&format!("(?&{name})")),
        }
    }

    pub fn text(&self) -> String {
        let mut s = String::new();
        self.render(&mut s);
        s
    }

    /// contains an unbounded greedy repetition of a dot-like class (needs allow_greedy)
    pub fn has_greedy_dot(&self) -> bool {
        match self {
            Ast::Rep(sub, r) => {
                let dotlike = matches!(&**sub, Ast::Class(c) if DOTLIKE.contains(c));
                (dotlike && r.max.is_none()) || sub.has_greedy_dot()
            }
            Ast::Cat(v) | Ast::Alt(v) => v.iter().any(|a| a.has_greedy_dot()),
            Ast::Group(sub, _) => sub.has_greedy_dot(),
            _ => false,
        }
    }

    pub fn size(&self) -> usize {
        match self {
            Ast::Cat(v) | Ast::Alt(v) => 1 + v.iter().map(|a| a.size()).sum::<usize>(),
            Ast::Rep(sub, r) => (1 + sub.size()) * (r.max.unwrap_or(r.min).max(1) as usize),
            Ast::Group(sub, _) => 1 + sub.size(),
            _ => 1,
        }
    }
}

/// classes which logos' greedy check treats as "dot" (conservatively: any dot form or [^\n])
const DOTLIKE: &[&str] = &[".", "(?s:.)", "[^\\n]", "(?-u:.)", "(?s-u:.)", "[^\\r\\n]"];

pub const STR_CHARS: &[char] = &[
    'a', 'b', 'c', 'x', '0', '1', '-', '_', '.', '*', ' ', '\n', 'é', 'ß', 'λ', 'σ', 'ς', 'Σ', '\u{212A}', 'ſ', '日', '😀', 'A', 'k', 's', '\u{a0}', '\u{2003}',
    '[', ']', '(',
];
pub const ASCII_CHARS: &[char] = &['a', 'b', 'c', 'x', '0', '1', '-', '_', '.', '*', ' ', '\n', 'A', 'k', '[', ']', '('];

pub const STR_CLASSES: &[&str] = &[
    "[a-c]", "[ac]", "[a-ce-g]", "[a-cx-z0]", "[^a]", "[^a-c]", "\\d", "\\w", "\\s", "\\p{Greek}", ".", "(?s:.)", "[0-9]",
    "[a-z]", "[a-zA-Z_]", "[é-λ]", "[^\\n]", "[\\x00-ac-z]", "[ab]", "[b-x]", "[^ab]", "[a-c0-1]", "[\\x00-\\x7f]", "[^\\x00-\\x7f]",
    "[a-b]", "[x0]", "[\\x00-\\x7f&&[^a]]", "[[:ascii:]&&[^ab]]", "[0P]", "[ @]", "[?_]", "[kK]", "[08]", "[0p]", "[AQ]",
];
pub const ASCII_CLASSES: &[&str] =
    &["[a-c]", "[ac]", "[a-ce-g]", "[a-cx-z0]", "[0-9]", "[a-z]", "[ab]", "[b-x]", "[a-c0-1]", "[a-b]", "[x0]", "[a-zA-Z_]", "[ \\n]", "[0P]", "[ @]", "[?_]", "[kK]", "[08]", "[0p]", "[AQ]"];
/// byte-mode only (can match invalid UTF-8)
pub const BYTE_CLASSES: &[&str] = &[
    "(?-u:[\\x80-\\xff])", "(?-u:[^a])", "(?-u:.)", "(?s-u:.)", "(?-u:[^ac])", "(?-u:[\\x00-ac-z])", "(?-u:[^\\x00])", "(?-u:[^\\xff])",
    "(?-u:[\\x00-\\x7f])", "(?-u:[\\xC3\\xA9])", "(?-u:[^a-c])", "(?-u:\\xFF)", "(?-u:\\x80)", "(?-u:\\xC3)", "(?-u:[\\x60\\x80])", "(?-u:[\\xA0\\xC0])", "(?-u:[\\x7f\\xff])",
];
pub const LOOKS: &[&str] = &["$", "\\z", "(?m:$)", "(?-u:\\b)", "(?-u:\\B)"];
pub const GROUPS: &[&str] = &["(", "(?:", "(?i:", "(?s:", "(?m:", "(?x:", "(?U:", "(?-u:"];

#[derive(Clone, Debug)]
pub struct GenCfg {
    pub utf8: bool,
    /// allow non-ASCII chars / Unicode classes
    pub unicode: bool,
    /// allow look-around assertions
    pub looks: bool,
    /// allow byte-mode-only items (requires !utf8)
    pub byte_items: bool,
    /// allow inline flag groups
    pub flags: bool,
    pub max_depth: u32,
}

fn rep_strategy() -> impl Strategy<Value = Rep> {
    prop_oneof![
        4 => Just((0u32, None)),
        4 => Just((1u32, None)),
        3 => Just((0u32, Some(1u32))),
        1 => (0u32..=3).prop_map(|m| (m, Some(m.max(1)))),
        1 => (0u32..=2).prop_map(|m| (m, None)),
        1 => (0u32..=2, 1u32..=2).prop_map(|(m, d)| (m, Some(m + d))),
    ]
    .prop_flat_map(|(min, max)| (Just(min), Just(max), prop::bool::weighted(0.2), prop::bool::weighted(0.15)))
    .prop_map(|(min, max, lazy, counted)| Rep { min, max, lazy, counted })
}

pub fn ast_strategy(cfg: &GenCfg) -> BoxedStrategy<Ast> {
    let chars: &'static [char] = if cfg.unicode { STR_CHARS } else { ASCII_CHARS };
    let classes: &'static [&'static str] = if cfg.unicode { STR_CLASSES } else { ASCII_CLASSES };
    let lit = vec(select(chars), 1..=3).prop_map(|cs| Ast::Lit(cs.into_iter().collect()));
    let class = select(classes).prop_map(Ast::Class);
    let mut leaves: Vec<(u32, BoxedStrategy<Ast>)> = vec![(5, lit.boxed()), (4, class.boxed())];
    if cfg.byte_items && !cfg.utf8 {
        leaves.push((2, select(BYTE_CLASSES).prop_map(Ast::Class).boxed()));
        leaves.push((1, select(&[0x00u8, 0x7f, 0x80, 0xC3, 0xA9, 0xFF][..]).prop_map(Ast::Byte).boxed()));
    }
    let leaf = proptest::strategy::Union::new_weighted(leaves);
    let looks = cfg.looks;
    let flags = cfg.flags;
    let byte_ok = !cfg.utf8;
    leaf.prop_recursive(cfg.max_depth, 20, 4, move |inner| {
        let mut opts: Vec<(u32, BoxedStrategy<Ast>)> = vec![
            (4, vec(inner.clone(), 2..=3).prop_map(Ast::Cat).boxed()),
            (3, vec(inner.clone(), 2..=3).prop_map(Ast::Alt).boxed()),
            (4, (inner.clone(), rep_strategy()).prop_map(|(a, r)| Ast::Rep(Box::new(a), r)).boxed()),
        ];
        let groups: Vec<&'static str> = GROUPS
            .iter()
            .copied()
            .filter(|g| (flags || *g == "(" || *g == "(?:") && (byte_ok || *g != "(?-u:"))
            .collect();
        opts.push((2, (inner.clone(), select(groups)).prop_map(|(a, g)| Ast::Group(Box::new(a), g)).boxed()));
        if looks {
            // look-ahead after something, so it is interior or at the end
            opts.push((2, (inner.clone(), select(LOOKS)).prop_map(|(a, l)| Ast::Cat(vec![a, Ast::Look(l)])).boxed()));
            opts.push((
                1,
                (inner.clone(), select(LOOKS), inner.clone()).prop_map(|(a, l, b)| Ast::Cat(vec![a, Ast::Look(l), b])).boxed(),
            ));
        }
        proptest::strategy::Union::new_weighted(opts)
    })
    .boxed()
}

/// A non-nullable pattern AST (nullable ones get a literal prefix or suffix).
pub fn pattern_ast(cfg: &GenCfg) -> BoxedStrategy<Ast> {
    let chars: &'static [char] = if cfg.unicode { STR_CHARS } else { ASCII_CHARS };
    (ast_strategy(cfg), select(chars), any::<bool>())
        .prop_map(|(a, c, front)| {
            if a.nullable() {
                let l = Ast::Lit(c.to_string());
                if front {
                    Ast::Cat(vec![l, a])
                } else {
                    Ast::Cat(vec![a, l])
                }
            } else {
                a
            }
        })
        .boxed()
}

/// Bare inline flag items (`(?i)rest`, not `(?i:..)`): they apply to the rest of the pattern they stand in - and to nothing
/// else, in particular not to the patterns compiled after it.
pub const BARE_FLAGS: &[&str] = &["(?i)", "(?s)", "(?U)", "(?m)", "(?-u)", "(?i-u)", "(?-i)"];

fn bare_flag(cfg: &GenCfg) -> BoxedStrategy<&'static str> {
    if cfg.flags {
        prop_oneof![7 => Just(""), 1 => select(BARE_FLAGS)].boxed()
    } else {
        Just("").boxed()
    }
}

fn prefixed(lit: &LitSpec, flag: &str) -> LitSpec {
    if lit.bytes {
        let mut raw = flag.as_bytes().to_vec();
        raw.extend_from_slice(&lit.raw);
        LitSpec::bytes(raw)
    } else {
        LitSpec::str(format!("{flag}{}", lit.text))
    }
}

fn keyword(cfg: &GenCfg) -> BoxedStrategy<String> {
    let chars: &'static [char] = if cfg.unicode { STR_CHARS } else { ASCII_CHARS };
    // mostly short; now and then long enough for runs of single-edge states of 8, 16 and 32+ bytes
    let len = prop_oneof![14 => 1usize..=4, 3 => 5usize..=9, 2 => 15usize..=18, 1 => 31usize..=36];
    len.prop_flat_map(move |n| vec(select(chars), n)).prop_map(|cs| cs.into_iter().collect::<String>()).boxed()
}

#[derive(Clone, Debug)]
enum PrioMode {
    Default,
    Distinct(Vec<usize>),
    Mixed(Vec<Option<usize>>),
}

/// Core family: 1-6 patterns (tokens, regexes), 0-2 skips, priorities default / distinct / mixed.
pub fn def_strategy(cfg: GenCfg) -> BoxedStrategy<DefSpec> {
    let utf8 = cfg.utf8;
    let pat = {
        let cfg = cfg.clone();
        prop_oneof![
            2 => (keyword(&cfg), prop::bool::weighted(0.15)).prop_map(|(k, ic)| {
                let mut p = PatSpec::token(LitSpec::str(k));
                p.ignore_case = ic;
                p
            }),
            5 => (pattern_ast(&cfg), prop::bool::weighted(0.08), bare_flag(&cfg)).prop_map(|(a, ic, fl)| {
                let mut p = PatSpec::regex(LitSpec::str(format!("{fl}{}", a.text())));
                p.allow_greedy = a.has_greedy_dot();
                p.ignore_case = ic;
                p
            }),
        ]
    };
    let skip = {
        let cfg = cfg.clone();
        prop_oneof![
            2 => Just(PatSpec::regex(LitSpec::str("[ \\n]+"))),
            1 => Just(PatSpec::regex(LitSpec::str(" "))),
            2 => (pattern_ast(&cfg), bare_flag(&cfg)).prop_map(|(a, fl)| {
                let mut p = PatSpec::regex(LitSpec::str(format!("{fl}{}", a.text())));
                p.allow_greedy = a.has_greedy_dot();
                p
            }),
        ]
    };
    let prio = prop_oneof![
        4 => Just(PrioMode::Default),
        4 => Just((1..=8usize).collect::<Vec<_>>()).prop_shuffle().prop_map(PrioMode::Distinct),
        2 => vec(prop::option::weighted(0.6, 1usize..=4), 8).prop_map(PrioMode::Mixed),
        // distinct priorities spread over the whole range of usize (values that differ only above bit 32, below bit 16 ..)
        1 => Just(vec![3usize, 70000, (1 << 32) + 1, (1 << 32) + 20, (1 << 33) + 9, 1 << 31, (1 << 32) - 1, 1 << 48]).prop_shuffle().prop_map(PrioMode::Distinct),
    ];
    // extension patterns: an existing pattern followed by a tail, as a skip or as another variant - the lexer has to carry an
    // earlier accept (the shorter pattern) through states of the longer one and fall back to it
    const TAILS: &[&str] = &[
        "[a-z]*", "[ -~]*", "[a-c]+", "x*", "(?:ab)*", "[^\\n]*", "[0-9a-c]*b", "-?", "[ \\n]+",
        // literal tails: the base pattern ends strictly inside a run of single-edge states (8, 17, 41 bytes, multi-byte chars)
        "abcabcab", "_0123456789abcdef", "_0123456789_0123456789_0123456789_0123456", "日本語日本語日本語日本語", "=>>>[0-9]",
    ];
    let exts = vec((any::<u8>(), select(TAILS), 0u8..3), 0..=2);
    let shared_prefix = prop::option::weighted(0.12, select(vec![" *", "a*", "[ab]*", "(?:ab)*", "x?"]));
    (vec(pat, 1..=6), vec(skip, 0..=2), prio, vec(any::<bool>(), 6), prop::option::weighted(0.35, exts), shared_prefix)
        .prop_map(move |(mut pats, mut skips, prio, share, exts, shared_prefix)| {
            for (bi, tail, role) in exts.unwrap_or_default() {
                let base = &pats[bi as usize % pats.len()];
                if base.lit.bytes {
                    continue;
                }
                let head = if base.kind == crate::spec::PatKind::Token { regex_syntax::escape(&base.lit.text) } else { format!("(?:{})", base.lit.text) };
                let mut p = PatSpec::regex(LitSpec::str(format!("{head}{tail}")));
                p.allow_greedy = base.allow_greedy || tail == "[^\\n]*";
                p.ignore_case = base.ignore_case;
                if role == 0 && skips.len() < 3 {
                    skips.push(p);
                } else if pats.len() < 8 {
                    pats.push(p);
                }
            }
            // shared loop prefix: every pattern (skips included) starts with the same optional repetition, so the root of the
            // graph loops on itself
            if let Some(pre) = shared_prefix {
                if skips.iter().chain(pats.iter()).all(|p| !p.lit.bytes) {
                    for p in skips.iter_mut().chain(pats.iter_mut()) {
                        let body = if p.kind == crate::spec::PatKind::Token { regex_syntax::escape(&p.lit.text) } else { format!("(?:{})", p.lit.text) };
                        let mut q = PatSpec::regex(LitSpec::str(format!("{pre}{body}")));
                        q.allow_greedy = p.allow_greedy;
                        q.ignore_case = p.ignore_case;
                        *p = q;
                    }
                }
            }
            let all = skips.iter_mut().chain(pats.iter_mut());
            for (i, p) in all.enumerate() {
                match &prio {
                    PrioMode::Default => {}
                    PrioMode::Distinct(v) => p.priority = Some(v[i % v.len()] + 8 * (i / v.len())),
                    PrioMode::Mixed(v) => p.priority = v[i % v.len()],
                }
            }
            // group patterns into variants: a pattern may share the previous variant
            let mut variants: Vec<Vec<PatSpec>> = Vec::new();
            for (i, p) in pats.into_iter().enumerate() {
                if i > 0 && share[i % share.len()] && i % 3 == 2 {
                    variants.last_mut().unwrap().push(p);
                } else {
                    variants.push(vec![p]);
                }
            }
            DefSpec { utf8, subpatterns: vec![], skips, variants }
        })
        .boxed()
}

/// Mixed family selector used by the lexing checks: str/bytes x ascii/unicode x look-around.
pub fn lexing_defs() -> BoxedStrategy<DefSpec> {
    let mk = |utf8, unicode, looks, byte_items, flags| {
        def_strategy(GenCfg { utf8, unicode, looks, byte_items, flags, max_depth: 3 })
    };
    prop_oneof![
        4 => mk(true, false, false, false, false),
        3 => mk(true, true, false, false, true),
        3 => mk(true, false, true, false, false),
        2 => mk(true, true, true, false, true),
        2 => mk(false, false, false, true, false),
        2 => mk(false, true, true, true, true),
    ]
    .prop_filter("pattern over the determinization budget", |d| crate::reference::cost_ok(d, COST_LIMIT))
    .boxed()
}

/// Budget of the generator-side cost gate (bytes of per-pattern DFA), see `reference::cost_ok`. Measured with
/// `costprobe`: 0-2 of 600 generated definitions per family exceed it; every definition within it derives in < 0.3 s,
/// one beyond it (`(?:\\p{Greek}|(?-u:(?-u:.{3}){3})){2,}`) kept the derive busy for more than ten minutes.
pub const COST_LIMIT: usize = 1 << 20;

// ---------------------------------------------------------------------------------------------
// C08: conflict family - tiny alphabet, priorities default or from a tiny range so that ties and
// shadowed ties are frequent.

pub const TINY_CHARS: &[char] = &['a', 'b', 'c', 'A'];
pub const TINY_CLASSES: &[&str] = &["[a-c]", "[ab]", "[ac]", "[bc]", "[a-b]", "[^c]", "[aA]", "[a-cA]"];

fn tiny_ast(looks: bool) -> BoxedStrategy<Ast> {
    let lit = vec(select(TINY_CHARS), 1..=3).prop_map(|cs| Ast::Lit(cs.into_iter().collect()));
    let class = select(TINY_CLASSES).prop_map(Ast::Class);
    let leaf = prop_oneof![5 => lit, 3 => class];
    leaf.prop_recursive(3, 12, 3, move |inner| {
        let mut opts: Vec<(u32, BoxedStrategy<Ast>)> = vec![
            (4, vec(inner.clone(), 2..=3).prop_map(Ast::Cat).boxed()),
            (3, vec(inner.clone(), 2..=3).prop_map(Ast::Alt).boxed()),
            (4, (inner.clone(), rep_strategy()).prop_map(|(a, r)| Ast::Rep(Box::new(a), r)).boxed()),
            (1, inner.clone().prop_map(|a| Ast::Group(Box::new(a), "(?i:")).boxed()),
        ];
        if looks {
            opts.push((2, (inner.clone(), select(LOOKS)).prop_map(|(a, l)| Ast::Cat(vec![a, Ast::Look(l)])).boxed()));
        }
        proptest::strategy::Union::new_weighted(opts)
    })
    .prop_map(|a| if a.nullable() { Ast::Cat(vec![Ast::Lit("a".into()), a]) } else { a })
    .boxed()
}

pub fn conflict_defs() -> BoxedStrategy<DefSpec> {
    let pat = prop_oneof![
        3 => (vec(select(TINY_CHARS), 1..=3), prop::bool::weighted(0.2)).prop_map(|(k, ic)| {
            let mut p = PatSpec::token(LitSpec::str(k.into_iter().collect::<String>()));
            p.ignore_case = ic;
            p
        }),
        5 => (prop::bool::weighted(0.25)).prop_flat_map(tiny_ast).prop_flat_map(|a| (Just(a), prop::bool::weighted(0.15))).prop_map(|(a, ic)| {
            let mut p = PatSpec::regex(LitSpec::str(a.text()));
            p.ignore_case = ic;
            p
        }),
    ];
    // a regex that starts with a bare inline flag item: the flag belongs to this pattern only, the patterns declared
    // after it are read case-sensitively (or case-insensitively) as written
    let flagged = (tiny_ast(false), select(vec!["(?i)", "(?i)", "(?-i)", "(?s)", "(?x)"])).prop_map(|(a, f)| PatSpec::regex(LitSpec::str(format!("{f}{}", a.text()))));
    let pat = prop_oneof![8 => pat, 1 => flagged];
    let prio = prop_oneof![
        10 => prop::option::weighted(0.5, 1usize..=4),
        // priorities that are equal or different only beyond bit 32 / bit 16
        1 => select(vec![Some(2usize), Some((1 << 32) + 2), Some((1 << 33) + 2), Some(65536 + 2), Some(1 << 32), Some(usize::MAX)]),
    ];
    // number of leading patterns that become skips: ties among skips only, between a skip and a token, among tokens
    let n_skips = prop_oneof![6 => Just(0usize), 2 => Just(1usize), 2 => Just(2usize), 1 => Just(3usize)];
    (vec((pat, prio), 2..=6), n_skips, any::<bool>(), prop::option::weighted(0.25, any::<u8>()), vec(prop::bool::weighted(0.25), 6))
        .prop_map(|(mut pats, n_skips, utf8, dup, share)| {
            // a pattern written twice (same text, same priority): next to its original or at the end
            if let Some(d) = dup {
                let k = d as usize % pats.len();
                let copy = pats[k].clone();
                if d % 2 == 0 {
                    pats.insert(k + 1, copy);
                } else {
                    pats.push(copy);
                }
            }
            let mut skips = vec![];
            let mut variants: Vec<Vec<PatSpec>> = vec![];
            for (i, (mut p, pr)) in pats.into_iter().enumerate() {
                p.priority = pr;
                // several patterns stacked on one variant
                if i >= n_skips && share[i % share.len()] {
                    if let Some(last) = variants.last_mut() {
                        last.push(p);
                        continue;
                    }
                }
                if i < n_skips {
                    p.kind = crate::spec::PatKind::Regex;
                    if p.lit.text.is_empty() {
                        continue;
                    }
                    // a token literal used as a skip regex must be escaped; keep only plain alnum ones
                    skips.push(p);
                } else {
                    variants.push(vec![p]);
                }
            }
            if variants.is_empty() {
                variants.push(vec![PatSpec::token(LitSpec::str("c"))]);
            }
            DefSpec { utf8, subpatterns: vec![], skips, variants }
        })
        .boxed()
}

/// C08, wide definitions: 7-14 patterns that all match one short string (so that many leaves match in the same state),
/// explicit priorities from a range wide enough to be mostly distinct, with the top priority given to one or to several
/// patterns anywhere in the declaration order (also beyond the eighth leaf), as tokens, stacked patterns or skips.
pub fn wide_conflict_defs() -> BoxedStrategy<DefSpec> {
    const POOL: &[&str] = &[
        "a", "[ab]", "[a-c]", "a|b", "a|cc", "[aA]", "a+", "a{1,2}", "(a)", "a|ab", "[^b]", "aa?", "a|bb|c", "[a-b]|x", "(?:a|c)", "a(?:b|c)?", "[[:alpha:]]", "\\w", "a|[0-9]", "[a0]",
    ];
    (vec((proptest::sample::select(POOL), 1usize..=20), 7..=14), 1usize..=3, vec(any::<u8>(), 3), 0usize..=2, any::<bool>(), vec(prop::bool::weighted(0.2), 14))
        .prop_map(|(pats, n_top, top_at, n_skips, tie, share)| {
            let top = 30usize;
            let mut ps: Vec<PatSpec> = pats
                .iter()
                .map(|(t, pr)| {
                    let mut p = PatSpec::regex(LitSpec::str(t.to_string()));
                    p.priority = Some(*pr);
                    p
                })
                .collect();
            // the winner(s): `n_top` patterns get the top priority when `tie`, one otherwise
            let k = if tie { n_top.max(2) } else { 1 };
            for i in 0..k {
                let at = (top_at[i % top_at.len()] as usize * ps.len()) >> 8;
                ps[at].priority = Some(top);
            }
            let mut skips = vec![];
            let mut variants: Vec<Vec<PatSpec>> = vec![];
            for (i, p) in ps.into_iter().enumerate() {
                if i < n_skips {
                    skips.push(p);
                } else if share[i % share.len()] && !variants.is_empty() {
                    variants.last_mut().unwrap().push(p);
                } else {
                    variants.push(vec![p]);
                }
            }
            DefSpec { utf8: true, subpatterns: vec![], skips, variants }
        })
        .boxed()
}

// ---------------------------------------------------------------------------------------------
// C09: single patterns for the priority rule, and literal/regex pairs for the consequence clause.

pub fn priority_patterns() -> BoxedStrategy<PatSpec> {
    let mk = |utf8, unicode, looks, byte_items, flags| GenCfg { utf8, unicode, looks, byte_items, flags, max_depth: 4 };
    let ast = prop_oneof![
        4 => ast_strategy(&mk(true, true, false, false, true)),
        2 => ast_strategy(&mk(true, true, true, false, true)),
        2 => ast_strategy(&mk(false, true, true, true, true)),
    ];
    prop_oneof![
        6 => (ast.clone(), prop::bool::weighted(0.15), any::<bool>()).prop_map(|(a, ic, as_bytes)| {
            let text = a.text();
            // byte-string form of the same regex when it is ASCII-only text
            let lit = if as_bytes && text.is_ascii() { LitSpec::bytes(text.as_bytes().to_vec()) } else { LitSpec::str(text) };
            let mut p = PatSpec::regex(lit);
            p.ignore_case = ic;
            p.allow_greedy = true;
            p
        }),
        // counted repetitions with large minimum counts (the rule multiplies by the minimum, whatever its size)
        1 => (select(vec!["a", "[a-z]", "(?:ab|c)", "é", "\\d"]), select(vec![5u32, 16, 31, 32, 33, 40, 64]), select(vec!["", ",", ",70"]), select(vec!["", "x", "[0-9]?"])).prop_map(|(body, n, hi, tail)| {
            let mut p = PatSpec::regex(LitSpec::str(format!("{body}{{{n}{hi}}}{tail}")));
            p.allow_greedy = true;
            p
        }),
        2 => (vec(select(STR_CHARS), 0..=5), prop::bool::weighted(0.3)).prop_map(|(cs, ic)| {
            let mut p = PatSpec::token(LitSpec::str(cs.into_iter().collect::<String>()));
            p.ignore_case = ic;
            p
        }),
        1 => (vec(any::<u8>(), 0..=5), prop::bool::weighted(0.3)).prop_map(|(bs, ic)| {
            let mut p = PatSpec::token(LitSpec::bytes(bs));
            p.ignore_case = ic;
            p
        }),
    ]
    .boxed()
}

fn generalise_char(c: char) -> BoxedStrategy<Ast> {
    let mut opts: Vec<&'static str> = vec![".", "(?s:.)", "[^\\n]"];
    if c.is_ascii_lowercase() {
        opts.extend(["[a-z]", "\\w", "[a-zA-Z_]", "[^0-9]"]);
    }
    if c.is_ascii_digit() {
        opts.extend(["[0-9]", "\\d", "\\w"]);
    }
    if c.is_alphabetic() {
        opts.push("\\w");
        opts.push("\\p{L}");
    }
    if !c.is_ascii() {
        opts.push("[^\\x00-\\x7f]");
    }
    if c == '\n' {
        opts = vec!["(?s:.)", "\\s", "[ \\n]"];
    }
    if c == ' ' {
        opts.push("\\s");
    }
    let lit = Ast::Lit(c.to_string());
    let l2 = lit.clone();
    let l3 = lit.clone();
    let l4 = lit.clone();
    prop_oneof![
        4 => Just(lit),
        4 => select(opts).prop_map(Ast::Class),
        1 => Just(Ast::Rep(Box::new(l2), Rep { min: 1, max: None, lazy: false, counted: false })),
        1 => Just(Ast::Alt(vec![l3, Ast::Lit("x".into())])).prop_map(|a| Ast::Group(Box::new(a), "(?:")),
        1 => Just(Ast::Rep(Box::new(l4), Rep { min: 1, max: Some(2), lazy: false, counted: true })),
    ]
    .boxed()
}

/// (literal w, regex r built to match w, optional third pattern) - all default priorities.
pub fn pair_defs() -> BoxedStrategy<DefSpec> {
    vec(select(STR_CHARS), 1..=4)
        .prop_flat_map(|cs| {
            let parts: Vec<BoxedStrategy<Ast>> = cs.iter().map(|&c| generalise_char(c)).collect();
            let tail = prop_oneof![
                3 => Just(None),
                1 => Just(Some(Ast::Rep(Box::new(Ast::Class("[a-z]")), Rep { min: 0, max: None, lazy: false, counted: false }))),
                1 => Just(Some(Ast::Rep(Box::new(Ast::Lit("ab".into())), Rep { min: 0, max: Some(1), lazy: false, counted: false }))),
                1 => Just(Some(Ast::Rep(Box::new(Ast::Class("\\d")), Rep { min: 0, max: Some(2), lazy: true, counted: true }))),
            ];
            (Just(cs), parts, tail, prop::bool::weighted(0.35), prop::bool::weighted(0.2))
        })
        .prop_map(|(cs, parts, tail, bystander, regex_first)| {
            let w: String = cs.into_iter().collect();
            let mut v = parts;
            if let Some(t) = tail {
                v.push(t);
            }
            let r = Ast::Cat(v);
            let mut rp = PatSpec::regex(LitSpec::str(r.text()));
            rp.allow_greedy = true;
            let tp = PatSpec::token(LitSpec::str(w));
            // a bystander declared between the two: the same regex at priority 1, below every default priority - it matches
            // the literal too but can neither win nor tie; the literal and the regex are then not adjacent in leaf order
            let mut by = rp.clone();
            by.priority = Some(1);
            let variants = match (regex_first, bystander) {
                (true, false) => vec![vec![rp], vec![tp]],
                (false, false) => vec![vec![tp], vec![rp]],
                (true, true) => vec![vec![rp], vec![by], vec![tp]],
                (false, true) => vec![vec![tp], vec![by], vec![rp]],
            };
            DefSpec { utf8: true, subpatterns: vec![], skips: vec![], variants }
        })
        .boxed()
}

// ---------------------------------------------------------------------------------------------
// C10: literal family.

pub const META_CHARS: &[char] = &[
    '\\', '.', '+', '*', '?', '(', ')', '|', '[', ']', '{', '}', '^', '$', '#', '&', '-', '~', ' ', '\n', '\t', '"', '\'', '/', 'a', 'B', 'k', 'K',
    's', 'S', 'i', 'I', 'é', 'É', 'ß', 'σ', 'ς', 'Σ', '\u{212A}', 'ſ', 'İ', 'ı', '日', 'ǅ', 'z', '0',
];

/// Every char of the BMP (plus Deseret, Osage, Adlam, ...) whose simple case folding class, as the regex crate computes it,
/// holds more than the char itself: lower/upper/titlecase letters, Kelvin/Angstrom signs, long s, Greek variants, ...
pub fn cased_pool() -> &'static [char] {
    static POOL: std::sync::OnceLock<Vec<char>> = std::sync::OnceLock::new();
    POOL.get_or_init(|| {
        use regex_syntax::hir::{ClassUnicode, ClassUnicodeRange};
        let mut v = Vec::new();
        for cp in (0x80u32..0x1_0000).chain(0x1_0400..0x1_0500).chain(0x1_0C80..0x1_0D00).chain(0x1_1880..0x1_18E0).chain(0x1_E900..0x1_E960) {
            let Some(c) = char::from_u32(cp) else { continue };
            let mut cls = ClassUnicode::new([ClassUnicodeRange::new(c, c)]);
            if cls.try_case_fold_simple().is_err() {
                continue;
            }
            let n: u32 = cls.iter().map(|r| r.end() as u32 - r.start() as u32 + 1).sum();
            if n > 1 {
                v.push(c);
            }
        }
        v
    })
}

/// a char with a non-trivial case folding, index mapped monotonically (shrinks towards the start of the pool)
pub fn cased_char() -> BoxedStrategy<char> {
    any::<u16>().prop_map(|i| {
        let pool = cased_pool();
        pool[(i as usize * pool.len()) >> 16]
    }).boxed()
}

pub fn literal_defs() -> BoxedStrategy<DefSpec> {
    let str_lit = vec(prop_oneof![6 => select(META_CHARS), 1 => cased_char()], 1..=5).prop_map(|cs| LitSpec::str(cs.into_iter().collect::<String>()));
    let byte_lit = vec(prop_oneof![3 => any::<u8>(), 2 => select(&b"aZk.*(\\[\x00\x7f\x80\xff\xc3\xa9"[..])], 1..=5).prop_map(LitSpec::bytes);
    let tok = (prop_oneof![3 => str_lit, 2 => byte_lit], prop::bool::weighted(0.5)).prop_map(|(lit, ic)| {
        let mut p = PatSpec::token(lit);
        p.ignore_case = ic;
        p
    });
    let cfg_s = GenCfg { utf8: true, unicode: true, looks: false, byte_items: false, flags: true, max_depth: 2 };
    let cfg_b = GenCfg { utf8: false, unicode: false, looks: false, byte_items: true, flags: false, max_depth: 2 };
    let rx = prop_oneof![
        3 => pattern_ast(&cfg_s).prop_map(|a| (LitSpec::str(a.text()), a.has_greedy_dot())),
        2 => pattern_ast(&cfg_b).prop_map(|a| {
            // byte-string regex: ASCII text of the pattern (\xNN escapes are ASCII text)
            (LitSpec::bytes(a.text().into_bytes()), a.has_greedy_dot())
        }),
    ]
    .prop_map(|(lit, greedy)| {
        let mut p = PatSpec::regex(lit);
        p.ignore_case = true;
        p.allow_greedy = greedy;
        p
    });
    // verbose-mode regexes (whitespace and comments are not part of the pattern), with ignore(case)
    let verbose = select(vec!["(?x) k [0-9]+ # digits", "(?x)\n k # first\n s+ # then", "(?x) [a-c] \\x20 z", "(?x: a b ) c", "(?x) K # trailing comment"]).prop_map(|t| {
        let mut p = PatSpec::regex(LitSpec::str(t));
        p.ignore_case = true;
        (vec![], vec![p])
    });
    // shapes: single token; single regex ignore(case); skip ignore(case) + token; two tokens with distinct priorities
    let plain = prop_oneof![
        1 => verbose,
        4 => tok.clone().prop_map(|t| (vec![], vec![t])),
        2 => rx.clone().prop_map(|r| (vec![], vec![r])),
        2 => (rx.clone(), tok.clone()).prop_map(|(r, mut t)| {
            t.priority = Some(50);
            let mut r = r;
            r.priority = Some(1);
            (vec![r], vec![t])
        }),
        2 => (tok.clone(), tok.clone()).prop_map(|(mut a, mut b)| {
            a.priority = Some(7);
            b.priority = Some(9);
            (vec![], vec![a, b])
        }),
        // a case-insensitive regex (as a skip or as a variant) that starts with a bare inline flag item, followed by a
        // case-insensitive token / regex of the same literal kind: the flag item belongs to its own pattern only
        3 => (select(BARE_FLAGS), select(vec!["(?u)", "(?i)", "(?-i)", "(?s)"]), rx.clone(), prop_oneof![2 => tok.clone(), 1 => rx.clone()], any::<bool>()).prop_map(|(fl, flb, mut r, mut t, as_skip)| {
            r.lit = prefixed(&r.lit, if r.lit.bytes { flb } else { fl });
            r.priority = Some(1);
            t.priority = Some(50);
            t.ignore_case = true;
            if as_skip { (vec![r], vec![t]) } else { (vec![], vec![r, t]) }
        }),
    ]
    .prop_map(|(skips, toks)| (skips, toks, None))
    .boxed();
    // ignore(case) reaches into subpattern references: the referenced text folds like the rest of the pattern
    let with_sub = (vec(prop_oneof![4 => select(&['a', 'K', 'k', 's', 'é', 'σ', 'Σ', '\u{212A}', 'ſ', 'z', '0', '-'][..]), 1 => cased_char()], 1..=3), select(vec!["x", "", "Q", ""]), any::<bool>(), select(vec!["!", "", "!"]))
        .prop_map(|(cs, pre, as_skip, post)| {
            let body: String = cs.iter().map(|c| regex_syntax::escape(&c.to_string())).collect();
            let mut p = PatSpec::regex(LitSpec::str(format!("{pre}(?&w){post}")));
            p.inlined = Some(LitSpec::str(format!("{pre}(?u:{body}){post}")));
            p.ignore_case = true;
            let sub = crate::spec::SubSpec { name: "w".into(), lit: LitSpec::str(body.clone()), inlined: Some(LitSpec::str(body)) };
            if as_skip {
                (vec![p], vec![PatSpec::token(LitSpec::str("\u{1}"))], Some(sub))
            } else {
                (vec![], vec![p], Some(sub))
            }
        })
        .boxed();
    (prop_oneof![10 => plain, 2 => with_sub], vec(prop::bool::weighted(0.3), 6))
    .prop_map(|((skips, toks, sub), share)| {
        let any_bytes = skips.iter().chain(toks.iter()).any(|p: &PatSpec| p.lit.bytes && std::str::from_utf8(&p.lit.raw).is_err())
            || skips.iter().chain(toks.iter()).any(|p: &PatSpec| p.lit.bytes && p.kind == crate::spec::PatKind::Regex);
        // aliases: several patterns (literal tokens with and without ignore(case), regexes) stacked on one variant
        let mut variants: Vec<Vec<PatSpec>> = Vec::new();
        for (i, t) in toks.into_iter().enumerate() {
            if i > 0 && share[i % share.len()] {
                variants.last_mut().unwrap().push(t);
            } else {
                variants.push(vec![t]);
            }
        }
        DefSpec { utf8: !any_bytes, subpatterns: sub.into_iter().collect(), skips, variants }
    })
    .boxed()
}

// ---------------------------------------------------------------------------------------------
// C11: subpattern family. ASTs carry `Ref(name)`; rendered once with (?&name) and once inlined.

fn inline(a: &Ast, subs: &[(String, bool, Ast)]) -> Ast {
    match a {
        Ast::Ref(n) => {
            let (_, bytes, body) = subs.iter().find(|(name, _, _)| name == n).expect("generated ref is defined");
            Ast::Group(Box::new(inline(body, subs)), if *bytes { "(?-u:" } else { "(?u:" })
        }
        Ast::Cat(v) => Ast::Cat(v.iter().map(|x| inline(x, subs)).collect()),
        Ast::Alt(v) => Ast::Alt(v.iter().map(|x| inline(x, subs)).collect()),
        Ast::Rep(s, r) => Ast::Rep(Box::new(inline(s, subs)), *r),
        Ast::Group(s, k) => Ast::Group(Box::new(inline(s, subs)), k),
        other => other.clone(),
    }
}

/// Insert references: replace some leaves of `a` by Ref(names[i]).
fn with_refs(a: Ast, picks: &[u8], names: &[String], counter: &mut usize) -> Ast {
    match a {
        Ast::Lit(_) | Ast::Class(_) | Ast::Byte(_) => {
            let k = *counter;
            *counter += 1;
            let pick = picks[k % picks.len()];
            if !names.is_empty() && pick < 110 {
                Ast::Ref(names[pick as usize % names.len()].clone())
            } else {
                a
            }
        }
        Ast::Cat(v) => Ast::Cat(v.into_iter().map(|x| with_refs(x, picks, names, counter)).collect()),
        Ast::Alt(v) => Ast::Alt(v.into_iter().map(|x| with_refs(x, picks, names, counter)).collect()),
        Ast::Rep(s, r) => Ast::Rep(Box::new(with_refs(*s, picks, names, counter)), r),
        Ast::Group(s, k) => Ast::Group(Box::new(with_refs(*s, picks, names, counter)), k),
        other => other,
    }
}

fn count_refs(a: &Ast) -> usize {
    match a {
        Ast::Ref(_) => 1,
        Ast::Cat(v) | Ast::Alt(v) => v.iter().map(count_refs).sum(),
        Ast::Rep(s, _) | Ast::Group(s, _) => count_refs(s),
        _ => 0,
    }
}

#[derive(Clone, Debug)]
pub struct SubCase {
    pub def: DefSpec,
    /// an undefined / forward reference was planted: the derive must reject
    pub must_reject: bool,
    pub max_ref_depth: usize,
    /// 0: undefined / forward reference ("not found"); 1: a subpattern source that is no regex on its own
    pub reject_kind: u8,
}

pub fn subpattern_defs() -> BoxedStrategy<SubCase> {
    let cfg = GenCfg { utf8: true, unicode: true, looks: false, byte_items: false, flags: true, max_depth: 2 };
    let cfg_ascii = GenCfg { utf8: true, unicode: false, looks: false, byte_items: false, flags: false, max_depth: 2 };
    let body = prop_oneof![3 => pattern_ast(&cfg), 2 => pattern_ast(&cfg_ascii)];
    let names = Just(vec!["s1".to_string(), "_x".to_string(), "A0".to_string(), "s10".to_string()]);
    (
        vec((body.clone(), prop::bool::weighted(0.25)), 1..=3),
        vec(pattern_ast(&cfg), 1..=3),
        vec(any::<u8>(), 12),
        names,
        prop::option::weighted(0.15, 0u8..4),
        prop::bool::weighted(0.4),
        vec(1usize..=8, 4).prop_shuffle(),
        prop::bool::weighted(0.65),
    )
        .prop_map(|(bodies, pats, picks, names, sabotage, with_skip, prios, utf8)| {
            // subpattern i may reference earlier ones
            let mut subs: Vec<(String, bool, Ast)> = Vec::new();
            let mut depth: Vec<usize> = Vec::new();
            for (i, (b, as_bytes)) in bodies.into_iter().enumerate() {
                let earlier: Vec<String> = subs.iter().map(|s| s.0.clone()).collect();
                let mut counter = i * 3;
                let b = with_refs(b, &picks, &earlier, &mut counter);
                // verbose mode with a line comment inside the subpattern: scoped (off again before the end of the source,
                // with text behind the group) or switched on for the whole source, the comment closed by a newline
                let b = match picks[(i * 7 + 3) % picks.len()] % 8 {
                    0 => Ast::Cat(vec![Ast::Group(Box::new(b), "(?x:# c\n "), Ast::Lit("t".into())]),
                    1 => Ast::Cat(vec![Ast::Class("(?x) "), b, Ast::Class(" # c\n")]),
                    _ => b,
                };
                // byte-string subpatterns only when the text is ASCII (valid as a b"" literal the same way)
                let bytes = as_bytes && b.text().is_ascii();
                let d = if count_refs(&b) > 0 { 1 + depth.iter().copied().max().unwrap_or(0) } else { 0 };
                depth.push(d);
                subs.push((names[i].clone(), bytes, b));
            }
            let defined: Vec<String> = subs.iter().map(|s| s.0.clone()).collect();
            let mut variants = Vec::new();
            let mut skips = Vec::new();
            let mut max_depth = 0;
            let mut total_refs = 0;
            for (i, p) in pats.into_iter().enumerate() {
                let mut counter = 5 + i * 7;
                let mut a = with_refs(p, &picks, &defined, &mut counter);
                // one pattern in six is a reference and nothing else
                if picks[(i * 5 + 1) % picks.len()] % 6 == 0 {
                    a = Ast::Ref(defined[(i + picks[0] as usize) % defined.len()].clone());
                }
                if count_refs(&a) == 0 {
                    // force one reference at start / middle / end
                    let r = Ast::Ref(defined[i % defined.len()].clone());
                    a = match i % 3 {
                        0 => Ast::Cat(vec![r, a]),
                        1 => Ast::Cat(vec![a.clone(), r, a]),
                        _ => Ast::Cat(vec![a, r]),
                    };
                }
                // a reference right behind an escaped backslash (`\\\\(?&name)`): the backslash pair is a literal, the group a reference
                if picks[(i * 3 + 2) % picks.len()] % 7 == 0 {
                    a = Ast::Cat(vec![Ast::Lit("\\".into()), Ast::Ref(defined[i % defined.len()].clone()), a]);
                }
                total_refs += count_refs(&a);
                max_depth = max_depth.max(1 + depth.iter().copied().max().unwrap_or(0));
                let inl = inline(&a, &subs);
                let mut ps = PatSpec::regex(LitSpec::str(a.text()));
                ps.inlined = Some(LitSpec::str(inl.text()));
                ps.allow_greedy = true;
                // ignore(case) on a referencing pattern folds the included text like the rest of the pattern
                ps.ignore_case = picks[(i * 3 + 2) % picks.len()] % 4 == 0;
                ps.priority = Some(prios[i % prios.len()] + 10 * i);
                if with_skip && i == 0 {
                    skips.push(ps);
                } else {
                    variants.push(vec![ps]);
                }
            }
            if variants.is_empty() {
                variants.push(vec![PatSpec::token(LitSpec::str("\u{2}"))]);
            }
            let _ = total_refs;
            let mut subpatterns: Vec<crate::spec::SubSpec> = subs
                .iter()
                .map(|(n, bytes, b)| {
                    let it = inline(b, &subs).text();
                    crate::spec::SubSpec {
                        name: n.clone(),
                        lit: if *bytes { LitSpec::bytes(b.text().into_bytes()) } else { LitSpec::str(b.text()) },
                        inlined: Some(if *bytes { LitSpec::bytes(it.into_bytes()) } else { LitSpec::str(it) }),
                    }
                })
                .collect();
            let mut must_reject = false;
            let mut reject_kind = 0u8;
            match sabotage {
                Some(0) => {
                    // undefined name (in a regex pattern: #[token] literals are not scanned for references)
                    if let Some(p) = skips.iter_mut().chain(variants.iter_mut().flat_map(|v| v.iter_mut())).find(|p| p.kind == crate::spec::PatKind::Regex) {
                        p.lit = LitSpec::str(format!("{}(?&nope)", p.lit.text));
                        must_reject = true;
                    }
                }
                Some(1) if subpatterns.len() >= 2 => {
                    // forward reference: first subpattern refers to the last
                    let last = subpatterns.last().unwrap().name.clone();
                    let first = &mut subpatterns[0];
                    if !first.lit.bytes {
                        first.lit = LitSpec::str(format!("{}(?&{last})", first.lit.text));
                        must_reject = true;
                    }
                }
                Some(2) => {
                    // near-miss name (prefix of a defined one)
                    if let Some(p) = skips.iter_mut().chain(variants.iter_mut().flat_map(|v| v.iter_mut())).find(|p| p.kind == crate::spec::PatKind::Regex) {
                        p.lit = LitSpec::str(format!("(?&s){}", p.lit.text));
                        must_reject = true;
                    }
                }
                Some(3) => {
                    // a source that only parses once it is wrapped in a group: its alternation / groups would leak into the
                    // referencing pattern, so the definition cannot be implemented as scoped inclusion
                    const UNBALANCED: &[&str] = &["a)|(b", "a)(b", "[a-c])|(x", "k)*(k", "a|b)|(c"];
                    let used: Vec<String> = skips
                        .iter()
                        .chain(variants.iter().flatten())
                        .filter(|p| p.kind == crate::spec::PatKind::Regex && !p.lit.bytes)
                        .map(|p| p.lit.text.clone())
                        .collect();
                    if let Some(sp) = subpatterns.iter_mut().find(|sp| !sp.lit.bytes && used.iter().any(|t| t.contains(&format!("(?&{})", sp.name)))) {
                        sp.lit = LitSpec::str(UNBALANCED[max_depth % UNBALANCED.len()]);
                        must_reject = true;
                        reject_kind = 1;
                    }
                }
                _ => {}
            }
            SubCase { def: DefSpec { utf8, subpatterns, skips, variants }, must_reject, max_ref_depth: max_depth, reject_kind }
        })
        .prop_filter("pattern over the determinization budget", |c| crate::reference::cost_ok(&c.def, COST_LIMIT))
        .boxed()
}

// ---------------------------------------------------------------------------------------------
// C13: callback family. Every pattern carries a callback spec (return type from the documented
// table, decision salt, bump, attachment form); skips may carry skip callbacks.

/// return type selectors: see `set::render_callback`
pub const RET_UNIT: &[u8] = &[0, 1, 2, 3, 4, 5, 6, 7, 8, 9, 10];
pub const RET_VALUE: &[u8] = &[11, 12, 13, 14, 15];
pub const RET_SKIP: &[u8] = &[16, 17, 18, 19];

pub fn callback_defs() -> BoxedStrategy<(DefSpec, Vec<bool>, bool)> {
    use crate::spec::CbSpec;
    let base = prop_oneof![
        3 => def_strategy(GenCfg { utf8: true, unicode: false, looks: false, byte_items: false, flags: false, max_depth: 2 }),
        2 => def_strategy(GenCfg { utf8: true, unicode: true, looks: false, byte_items: false, flags: false, max_depth: 2 }),
        1 => def_strategy(GenCfg { utf8: false, unicode: false, looks: false, byte_items: true, flags: false, max_depth: 2 }),
    ];
    (base, vec((any::<u8>(), any::<u32>(), 0u8..3, 0u8..7, prop::bool::weighted(0.85)), 10), vec(any::<bool>(), 8), prop::bool::weighted(0.5))
        .prop_map(|(mut def, specs, values, error_cb)| {
            // one pattern per variant (the variant kind decides the admissible return types)
            let flat: Vec<PatSpec> = def.variants.drain(..).flatten().collect();
            def.variants = flat.into_iter().map(|p| vec![p]).collect();
            let mut i = 0;
            let nskips = def.skips.len();
            let mut has_value = vec![false; nskips];
            for s in def.skips.iter_mut() {
                let (r, salt, bump, form, on) = specs[i % specs.len()];
                i += 1;
                if on {
                    s.callback = Some(CbSpec { ret: RET_SKIP[r as usize % RET_SKIP.len()], salt, bump, form: 2 + form % 2 });
                }
            }
            for (vi, v) in def.variants.iter_mut().enumerate() {
                let (r, salt, bump, form, on) = specs[i % specs.len()];
                i += 1;
                let value = values[vi % values.len()];
                has_value.push(value);
                if value && salt % 4 == 0 {
                    // value variant without a callback: holds the matched slice (`Name::V(lex.slice())`)
                    v[0].callback = None;
                } else if value {
                    v[0].callback = Some(CbSpec { ret: RET_VALUE[r as usize % RET_VALUE.len()], salt, bump, form });
                } else if on {
                    v[0].callback = Some(CbSpec { ret: RET_UNIT[r as usize % RET_UNIT.len()], salt, bump, form });
                }
            }
            (def, has_value, error_cb)
        })
        .boxed()
}
