//! Attribute pools of the C19 soup, shared by the proptest generator (vgraph) and the libFuzzer target.

pub const ENUM_ATTRS_OK: &[&str] = &[
    "#[logos(skip \" \")]", "#[logos(skip(\"\\t+\", priority = 3))]", "#[logos(extras = MyExtras)]", "#[logos(error = MyError)]",
    "#[logos(error(MyError, my_cb))]", "#[logos(error(MyError, callback = |lex| MyError::at(lex.span())))]", "#[logos(utf8 = false)]",
    "#[logos(utf8 = true)]", "#[logos(crate = my::logos)]", "#[logos(subpattern d = \"[0-9]\")]", "#[logos(subpattern dd = \"(?&d)(?&d)\")]",
    "#[derive(Debug, Clone)]", "#[repr(u8)]", "/// docs", "#[allow(dead_code)]", "#[logos(skip(\"#[^\\n]*\", allow_greedy = true))]",
    "#[logos(lifetime = none)]", "#[logos(lifetime = 's)]", "#[logos(lifetime = 'a)]", "#[logos(type T = &'s str)]", "#[logos(type T = u32)]",
    "#[logos(lifetime = none, type T = &'static str)]", "#[logos(extras = &'s [u8])]",
];
pub const ENUM_ATTRS_BAD: &[&str] = &[
    "#[logos]", "#[logos = \"x\"]", "#[logos()]", "#[logos(3)]", "#[logos(\"x\")]", "#[logos(|x| x)]", "#[logos(skip)]", "#[logos(skip = \"a\")]",
    "#[logos(skip 3)]", "#[logos(skip())]", "#[logos(skip(3))]", "#[logos(skip(\"a\", \"b\", \"c\"))]", "#[logos(skip(\"a\", priority = 1, priority = 2))]",
    "#[logos(skip(\"a\", callback = f, callback = g))]", "#[logos(skip(\"a\", f, callback = g))]", "#[logos(error = A, error = B)]",
    "#[logos(error(A, callback = f, callback = g))]", "#[logos(error(A, f, callback = g))]", "#[logos(error())]", "#[logos(error(A, f, g))]",
    "#[logos(error(A, unknown = 3))]", "#[logos(error(A, callback))]", "#[logos(error(3 +))]", "#[logos(error)]", "#[logos(extras = A, extras = B)]",
    "#[logos(extras)]", "#[logos(extras(A))]", "#[logos(utf8 = maybe)]", "#[logos(utf8 = true, utf8 = false)]", "#[logos(utf8)]", "#[logos(utf8(true))]",
    "#[logos(crate)]", "#[logos(crate(x))]", "#[logos(subpattern = \"a\")]", "#[logos(subpattern x)]", "#[logos(subpattern x = 3)]",
    "#[logos(subpattern x = \"a\", subpattern x = \"b\")]", "#[logos(subpattern x = \"(\")]", "#[logos(subpattern x = \"(?&x)\")]",
    "#[logos(subpattern e = \"a*\")]", "#[logos(type T = u8)]", "#[logos(type T)]", "#[logos(type = u8)]", "#[logos(lifetime = 'a, lifetime = 'b)]",
    "#[logos(lifetime = 'zz)]", "#[logos(lifetime)]", "#[logos(export_dir = 3)]", "#[logos(export_dir)]", "#[logos(source = str)]", "#[logos(nope = 1)]",
    "#[logos(nope)]", "#[logos(,)]", "#[logos(skip \"a\" \"b\")]", "#[logos(skip(\"a\", ignore(nope)))]", "#[logos(error = )]", "#[logos(extras = )]",
    "#[logos(skip(\"a\", priority = ))]", "#[logos(skip(\"a\", callback = ))]", "#[logos(skip(\"a\", callback = |a, b| a))]", "#[logos(skip(\"a\", callback = ||))]",
    "#[logos(skip(\"a\", |x|))]", "#[logos(skip(\"a\") junk)]", "#[logos(skip b\"\\xff\")]", "#[logos(skip \"\")]",
];
pub const VAR_ATTRS_OK: &[&str] = &[
    "#[token(\"a\")]", "#[token(\"bc\", priority = 3)]", "#[regex(\"[a-z]+\")]", "#[regex(\"[0-9]+\", |lex| lex.slice().len())]", "#[regex(\"x+\", my_cb)]",
    "#[regex(\"y\", callback = my_cb)]", "#[token(\"k\", ignore(case))]", "#[regex(\"q.*\", allow_greedy = true)]", "#[token(b\"\\x00\")]",
    "#[regex(\"(?&d)+z\")]", "#[regex(\"é|ß\")]", "/// doc", "#[cfg(all())]", "#[regex(\"w$\")]",
];
pub const VAR_ATTRS_BAD: &[&str] = &[
    "#[token]", "#[token()]", "#[token(3)]", "#[token = \"a\"]", "#[token(\"a\", \"b\")]", "#[token(\"a\", \"b\", \"c\")]", "#[token(\"a\", priority = 1, priority = 2)]",
    "#[token(\"a\", callback = f, callback = g)]", "#[regex(\"a\", f, callback = g)]", "#[regex(\"(\")]", "#[regex(\"a{2,1}\")]", "#[regex(\"\\\\p{Nope}\")]",
    "#[regex(\"a\", ignore(nope))]", "#[regex(\"a\", ignore())]", "#[regex(\"a\", ignore(case,))]", "#[regex(\"a\", ignore(case case))]", "#[regex(\"a\", ignore = case)]",
    "#[regex(\"a\", ignore(ascii_case))]", "#[regex(\"a\", priority = -1)]", "#[regex(\"a\", priority = 99999999999999999999999)]", "#[regex(\"a\", priority = \"x\")]",
    "#[regex(\"a\", priority(3))]", "#[regex(\"a\", priority)]", "#[regex(\"a\", unknown = 3)]", "#[regex(\"a\", allow_greedy = maybe)]", "#[regex(\"a\", allow_greedy)]",
    "#[regex(\"a\", allow_greedy = true, allow_greedy = false)]", "#[regex(\"a\",,)]", "#[regex(,\"a\")]", "#[regex(\"a\" \"b\")]", "#[regex(\"a\", |a, b| a)]",
    "#[regex(\"a\", ||)]", "#[regex(\"a\", |x|)]", "#[regex(\"a\", callback = )]", "#[regex(\"a\", callback)]", "#[regex(\"a\", callback(f))]", "#[error]",
    "#[regex(b\"\\xff\")]", "#[token(b\"\\xff\")]", "#[regex(\"a\", ignore(case) junk)]", "#[regex(\"a\", ignore(case), ignore(case))]", "#[regex('a')]",
    "#[regex(r#\"\"#)]", "#[regex(\"\\\\xff\")]", "#[regex(\"(?-u:\\\\xff)\")]", "#[regex(\"a\", 3)]", "#[token(\"a\", callback = 3 +)]", "#[regex(\"a\\\\1\")]",
    "#[regex(\"(?=a)b\")]", "#[regex(\"a++\")]", "#[regex(\"(?P<n>a)\")]", "#[regex(\"\\\\b{start}a\")]",
];
/// (attribute, independent reason) - definitions containing one of these on a unit variant must be rejected
pub const MUST_REJECT_ATTRS: &[(&str, &str)] = &[
    ("#[regex(\"a*\")]", "matches the empty string"),
    ("#[regex(\"[a-z]*\", priority = 3)]", "matches the empty string (explicit priority)"),
    ("#[regex(\"(ab)?\", priority = 1)]", "matches the empty string (explicit priority)"),
    ("#[regex(\"x{0,2}\", priority = 0)]", "matches the empty string (explicit priority)"),
    ("#[regex(\"(a|)\")]", "matches the empty string"),
    ("#[regex(\"\")]", "matches the empty string"),
    ("#[token(\"\")]", "matches the empty string"),
    ("#[token(\"\", ignore(case))]", "matches the empty string (case-insensitive empty token)"),
    ("#[token(b\"\", ignore(case))]", "matches the empty string (case-insensitive empty byte-string token)"),
    ("#[token(b\"\")]", "matches the empty string (empty byte-string token)"),
    ("#[token(\"\", ignore(case), priority = 3)]", "matches the empty string (case-insensitive empty token, explicit priority)"),
    ("#[regex(\"\", ignore(case))]", "matches the empty string"),
    ("#[regex(\"(?i)\")]", "matches the empty string (only a flag item)"),
    ("#[regex(\"b?c?\")]", "matches the empty string"),
    ("#[regex(\"(?:ab)*\")]", "matches the empty string"),
    ("#[regex(\"x{0,3}\")]", "matches the empty string"),
    ("#[regex(\"$\")]", "matches the empty string"),
    ("#[regex(\"a*$\")]", "matches the empty string at end of input"),
    ("#[regex(\"^a\")]", "look-behind at the token start"),
    ("#[regex(\"\\\\Aa\")]", "look-behind at the token start"),
    ("#[regex(\"(?m:^)a\")]", "look-behind at the token start"),
    ("#[regex(\"(?-u:\\\\b)a\")]", "look-behind at the token start"),
    ("#[regex(\"(?-u:\\\\B)a\")]", "look-behind at the token start"),
    ("#[regex(\"a\\\\b\")]", "Unicode word boundary (unsupported regex feature)"),
    ("#[regex(\"a\\\\Bb\")]", "Unicode word boundary (unsupported regex feature)"),
    ("#[regex(\"a.*\")]", "unbounded greedy dot without allow_greedy"),
    ("#[regex(\"a.+\")]", "unbounded greedy dot without allow_greedy"),
    ("#[regex(\"a[^\\\\n]*\")]", "unbounded greedy dot without allow_greedy"),
    ("#[regex(\"a(?s:.)*b\")]", "unbounded greedy dot without allow_greedy"),
    ("#[regex(\"a.{2,}\")]", "unbounded greedy dot without allow_greedy"),
    ("#[regex(r\"(a|b)\\1\")]", "unsupported regex feature (backreference)"),
    ("#[regex(r\"(x)(y)\\2z\")]", "unsupported regex feature (backreference)"),
    ("#[regex(r\"k\\7\")]", "unsupported regex feature (backreference / octal escape)"),
    ("#[regex(\"a(?=b)\")]", "unsupported regex feature (look-ahead group)"),
    ("#[regex(\"a(?!b)c\")]", "unsupported regex feature (negative look-ahead group)"),
    ("#[regex(\"(?<=a)b\")]", "unsupported regex feature (look-behind group)"),
    ("#[regex(r\"(?P<n>a)\\k<n>\")]", "unsupported regex feature (named backreference)"),
    ("#[regex(\"a(.)+\")]", "unbounded greedy dot (inside a capture group) without allow_greedy"),
    ("#[regex(\"a(?P<x>.)*b\")]", "unbounded greedy dot (inside a capture group) without allow_greedy"),
    ("#[regex(\"q((.))+\")]", "unbounded greedy dot (inside a capture group) without allow_greedy"),
    ("#[regex(\"(?:a.*)+\")]", "unbounded greedy dot (inside a repetition) without allow_greedy"),
    ("#[regex(\"x(?:.+y){2}\")]", "unbounded greedy dot (inside a repetition) without allow_greedy"),
    ("#[regex(\"(?:b[^\\n]*c)?d\")]", "unbounded greedy dot (inside a repetition) without allow_greedy"),
    ("#[regex(\"a(?:b|.*c)\")]", "unbounded greedy dot (inside an alternation) without allow_greedy"),
    ("#[regex(\"a(.*)\")]", "unbounded greedy dot (inside a capture group) without allow_greedy"),
    ("#[regex(\"(?&nope)\")]", "undefined subpattern"),
    ("#[regex(\"a(?&alsonope)b\")]", "undefined subpattern"),
];
/// (enum-level attributes, variant attribute, independent reason): must-reject classes that need an enum-level item
/// (a subpattern, a mode) next to the pattern
pub const MUST_REJECT_DEFS: &[(&str, &str, &str)] = &[
    ("#[logos(subpattern wb = r\"\\b\")]", "#[regex(\"[a-z]+(?&wb)\")]", "Unicode word boundary inside a subpattern"),
    ("#[logos(subpattern wb = r\"\\b\")]", "#[regex(b\"[a-z]+(?&wb)\")]", "Unicode word boundary inside a str subpattern referenced from a byte-string pattern"),
    ("#[logos(subpattern nb = r\"\\B\")]", "#[regex(b\"a(?&nb)b\")]", "Unicode word boundary inside a str subpattern referenced from a byte-string pattern"),
    ("#[logos(utf8 = false)]\n#[logos(subpattern wb = r\"x\\b\")]", "#[regex(b\"(?&wb)\")]", "Unicode word boundary inside a str subpattern (byte mode, byte-string pattern)"),
    ("#[logos(utf8 = false)]\n#[logos(subpattern bs = b\"[a-z]+\")]\n#[logos(subpattern wb = r\"(?&bs)\\b\")]", "#[regex(b\"(?&wb)!\")]", "Unicode word boundary inside a str subpattern (nested, byte mode)"),
    ("#[logos(utf8 = false)]", "#[regex(\"a\\\\b\")]", "Unicode word boundary (str pattern in byte mode)"),
    ("#[logos(utf8 = false)]", "#[regex(b\"a(?u:\\\\b)\")]", "Unicode word boundary (Unicode flag re-enabled in a byte-string pattern)"),
    ("#[logos(subpattern e = \"a?\")]", "#[regex(\"(?&e)\")]", "matches the empty string (through a subpattern)"),
    ("#[logos(subpattern d = \"[0-9]\")]", "#[regex(\"(?&d)*\")]", "matches the empty string (repetition of a subpattern)"),
    ("#[logos(subpattern g = \".*\")]", "#[regex(\"a(?&g)\")]", "unbounded greedy dot (inside a subpattern) without allow_greedy"),
    ("#[logos(subpattern dot = \".\")]", "#[regex(\"a(?&dot)+\")]", "unbounded greedy dot (the dot comes from a subpattern) without allow_greedy"),
    ("#[logos(subpattern lb = \"^a\")]", "#[regex(\"(?&lb)b\")]", "look-behind at the token start (inside a subpattern)"),
    ("#[logos(subpattern d = \"[0-9]\")]", "#[regex(\"(?&d)(?&dd)\")]", "undefined subpattern next to a defined one"),
];
/// Pattern tails that are unacceptable wherever they stand (regex syntax errors and unsupported features), as Rust
/// string-literal bodies; combined by the C19 check with subpattern references in front of and behind them, so that
/// positions inside the pattern as written and inside the pattern after substitution differ.
pub const BAD_TAILS: &[(&str, &str)] = &[
    ("x\\\\b", "Unicode word boundary"),
    ("(a)\\\\1", "unsupported regex feature (backreference)"),
    ("k\\\\7", "unsupported regex feature (backreference / octal escape)"),
    ("a(?=b)", "unsupported regex feature (look-ahead group)"),
    ("a(?!b)c", "unsupported regex feature (negative look-ahead group)"),
    ("(?<=a)b", "unsupported regex feature (look-behind group)"),
    ("(?&nope)", "undefined subpattern"),
    ("(", "regex syntax error (unclosed group)"),
    ("[a-", "regex syntax error (unclosed class)"),
    ("a{2,1}", "regex syntax error (invalid repetition range)"),
    ("\\\\p{Nope}", "regex syntax error (unknown Unicode class)"),
    ("[z-a]", "regex syntax error (invalid class range)"),
    ("\\\\xZZ", "regex syntax error (invalid hex escape)"),
    ("é{", "regex syntax error (unclosed counted repetition)"),
    ("(?P<n", "regex syntax error (unclosed group name)"),
    ("\\\\", "regex syntax error (trailing backslash)"),
];
pub const REF_SUBPATTERNS: &[&str] = &["a", "[a-z]+[0-9]*(?:_[a-z]+)*", "é+", "日|本"];

pub const MUST_REJECT_SHAPES: &[(&str, &str)] = &[
    ("{ x: u8 }", "named fields"),
    ("()", "empty tuple variant"),
    ("(u8, u8)", "multi-field variant"),
    ("(u8, u8, u8)", "multi-field variant"),
];


pub const GENERICS: &[&str] = &["", "", "", "<'s>", "<T>", "<'a, 'b>", "<const N: usize>", "<'s, T>"];
pub const FIELDS: &[&str] = &["", "", "", "", "", "", "", "", "(u32)", "(&'s str)", "(usize)", "(u32)", "(T)", "()", "(u8, u8)", "{ x: u8 }"];

pub fn render_soup(generics: &str, enum_attrs: &[String], variants: &[(Vec<String>, String)]) -> String {
    let mut s = String::from("#[derive(Logos)]\n");
    for a in enum_attrs {
        s.push_str(a);
        s.push('\n');
    }
    s.push_str(&format!("enum T{generics} {{\n"));
    for (i, (attrs, fields)) in variants.iter().enumerate() {
        for a in attrs {
            s.push_str("    ");
            s.push_str(a);
            s.push('\n');
        }
        s.push_str(&format!("    V{i}{fields},\n"));
    }
    s.push_str("}\n");
    s
}
