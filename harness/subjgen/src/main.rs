//! Writes the generated subject workspace (sharded library crates + runner) for a (seed, tier).
//! Deterministic; files are only written when their content changes.

use std::path::{Path, PathBuf};

use proptest::strategy::{Strategy, ValueTree};
use proptest::test_runner::{Config, RngSeed, TestRunner};

use model::gen::{callback_defs, lexing_defs, subpattern_defs};
use model::prep::prepare;
use model::set::{render_module, stress_defs, SubjectDef, SubjectSet};

fn write_if_changed(path: &Path, content: &str) -> bool {
    if let Ok(old) = std::fs::read_to_string(path) {
        if old == content {
            return false;
        }
    }
    if let Some(d) = path.parent() {
        std::fs::create_dir_all(d).unwrap();
    }
    std::fs::write(path, content).unwrap();
    true
}

/// the utf8 = false rendering of a str-mode definition is accepted by the current tree (otherwise no twin is
/// compiled; that the twin of an accepted definition must be accepted is checked by C12's tier G stage)
fn twin_ok(def: &model::spec::DefSpec) -> bool {
    if !def.utf8 {
        return false;
    }
    let mut t = def.clone();
    t.utf8 = false;
    prepare(&t).is_ok()
}

fn why(e: &model::prep::PrepError) -> String {
    match e {
        model::prep::PrepError::Panic(m) => format!("derive panicked: {m}"),
        model::prep::PrepError::Rejected(m, _) => format!("rejected: {m:?}"),
        model::prep::PrepError::NoReference(m) => format!("no reference: {m}"),
        model::prep::PrepError::Harness(m) => format!("harness: {m}"),
    }
}

fn main() {
    let args: Vec<String> = std::env::args().collect();
    let mut seed = 0u64;
    let mut tier = "quick".to_string();
    let vroot = model::run::root();
    let hroot = vroot.join("harness");
    let mut out = vroot.join("work/subjects");
    let mut n_core = 0usize;
    let mut shards = 8usize;
    let mut batch = 0u64;
    let mut from_replay: Option<String> = None;
    let mut exclude: Vec<usize> = Vec::new();
    let mut i = 1;
    while i < args.len() {
        match args[i].as_str() {
            "--seed" => seed = args[i + 1].parse().unwrap(),
            "--tier" => tier = args[i + 1].clone(),
            "--out" => out = PathBuf::from(&args[i + 1]),
            "--core" => n_core = args[i + 1].parse().unwrap(),
            "--shards" => shards = args[i + 1].parse().unwrap(),
            "--batch" => batch = args[i + 1].parse().unwrap(),
            "--from-replay" => from_replay = Some(args[i + 1].clone()),
            "--exclude" => exclude = args[i + 1].split(',').filter_map(|x| x.parse().ok()).collect(),
            _ => {}
        }
        i += 2;
    }
    if n_core == 0 {
        n_core = 64;
    }
    let mut runner = TestRunner::new(Config {
        rng_seed: RngSeed::Fixed(seed.wrapping_mul(0x9E3779B97F4A7C15) ^ batch.wrapping_mul(0xD1B54A32D192ED03) ^ 0x5b),
        failure_persistence: None,
        ..Config::default()
    });
    let mut defs: Vec<SubjectDef> = Vec::new();
    let strat = lexing_defs();
    let mut tries = 0;
    let mut total_states = 0usize;
    if let Some(path) = &from_replay {
        let v: serde_json::Value = serde_json::from_str(&std::fs::read_to_string(path).expect("replay file")).expect("replay json");
        let def = serde_json::from_value(v["def"].clone()).expect("def in replay");
        let family = v["family"].as_str().unwrap_or("core").to_string();
        let skip_log = v["skip_log"].as_bool().unwrap_or(false);
        let has_value = v["has_value"].as_array().map(|a| a.iter().map(|x| x.as_bool().unwrap_or(false)).collect()).unwrap_or_default();
        let error_cb = v["error_cb"].as_bool().unwrap_or(false);
        let twin = v["twin"].as_bool().unwrap_or(false);
        defs.push(SubjectDef { family, def, skip_log, has_value, error_cb, twin });
        n_core = 0;
        shards = 1;
    }
    if from_replay.is_none() {
        // fixed members of the core family (emitter / graph paths that random definitions reach only now and then)
        for sd in model::set::path_defs() {
            match prepare(&sd.def) {
                Ok(p) => {
                    total_states += p.graph.states.len();
                    let twin = twin_ok(&sd.def);
                    defs.push(SubjectDef { twin, ..sd });
                }
                Err(e) => eprintln!("subjgen: fixed core definition not accepted by this tree, left out: {}", why(&e)),
            }
        }
    }
    if from_replay.is_none() {
        // harvested members of the core family: a window (moving with seed and batch) over the definitions that ship
        // with the repository under test, reduced to their automata (model::harvest)
        let usable: Vec<_> = model::harvest::harvest().into_iter().filter_map(|h| prepare(&h.def).ok().filter(|p| p.graph.states.len() <= 600).map(|p| (h, p.graph.states.len()))).collect();
        let n_h = if tier == "thorough" { 40 } else { 16 }.min(usable.len());
        let start = if usable.is_empty() { 0 } else { ((seed.wrapping_mul(7).wrapping_add(batch)) as usize).wrapping_mul(n_h) % usable.len() };
        for k in 0..n_h {
            let (h, st) = &usable[(start + k) % usable.len()];
            total_states += st;
            let twin = twin_ok(&h.def);
            defs.push(SubjectDef { family: "core".into(), def: h.def.clone(), skip_log: k % 2 == 0, has_value: vec![], error_cb: false, twin });
        }
        eprintln!("subjgen: {} harvested definitions usable, {} taken from #{}", usable.len(), n_h, start);
    }
    if from_replay.is_none() {
        // definitions the tree must reject (C04 acceptance clause): compiled only when the tree under test accepts them
        for sd in model::set::trap_defs() {
            if let Ok(p) = prepare(&sd.def) {
                eprintln!("subjgen: a str-mode definition with a pattern that can match part of a code point is accepted by this tree; compiled as a subject");
                total_states += p.graph.states.len();
                let twin = twin_ok(&sd.def);
                defs.push(SubjectDef { twin, ..sd });
            }
        }
    }
    let n_fixed = defs.len();
    while defs.len() < n_core + n_fixed && tries < n_core * 20 {
        tries += 1;
        let def = strat.new_tree(&mut runner).unwrap().current();
        let Ok(p) = prepare(&def) else { continue };
        // bound the compile cost of a single subject
        if p.graph.states.len() > 600 {
            continue;
        }
        total_states += p.graph.states.len();
        let skip_log = defs.len() % 2 == 0;
        let twin = twin_ok(&def);
        defs.push(SubjectDef { family: "core".into(), def, skip_log, has_value: vec![], error_cb: false, twin });
    }
    // callbacks family (C13)
    let n_cb = if from_replay.is_some() { 0 } else if tier == "thorough" { (n_core * 2 / 3).max(8) } else { (n_core / 3).max(8) };
    let cstrat = callback_defs();
    let mut got = 0;
    tries = 0;
    if from_replay.is_none() {
        // fixed members of the callbacks family: the whole documented table in every run
        for sd in model::set::table_defs() {
            match prepare(&sd.def) {
                Ok(p) => {
                    total_states += 3 * p.graph.states.len();
                    defs.push(sd);
                }
                Err(e) => eprintln!("subjgen: fixed callbacks definition not accepted by this tree, left out: {}", why(&e)),
            }
        }
    }
    while got < n_cb && tries < n_cb * 30 {
        tries += 1;
        let (def, has_value, error_cb) = cstrat.new_tree(&mut runner).unwrap().current();
        let Ok(p) = prepare(&def) else { continue };
        if p.graph.states.len() > 300 {
            continue;
        }
        total_states += 3 * p.graph.states.len();
        defs.push(SubjectDef { family: "callbacks".into(), def, skip_log: false, has_value, error_cb, twin: false });
        got += 1;
    }
    // subpattern family (C11 on compiled lexers, C12 twins of definitions with subpatterns)
    let n_sub = if from_replay.is_some() { 0 } else if tier == "thorough" { (n_core / 3).max(6) } else { (n_core / 5).max(6) };
    let sstrat = subpattern_defs();
    got = 0;
    tries = 0;
    while got < n_sub && tries < n_sub * 40 {
        tries += 1;
        let case = sstrat.new_tree(&mut runner).unwrap().current();
        if case.must_reject {
            continue;
        }
        let Ok(p) = prepare(&case.def) else { continue };
        if p.graph.states.len() > 400 {
            continue;
        }
        total_states += p.graph.states.len();
        let twin = twin_ok(&case.def);
        defs.push(SubjectDef { family: "sub".into(), def: case.def, skip_log: false, has_value: vec![], error_cb: false, twin });
        got += 1;
    }
    // literal family (C10 on compiled lexers): fixed case-pair definitions and generated literal definitions
    if from_replay.is_none() {
        for sd in model::set::lit_defs() {
            match prepare(&sd.def) {
                Ok(p) => {
                    total_states += p.graph.states.len();
                    defs.push(sd);
                }
                Err(e) => eprintln!("subjgen: fixed literal definition not accepted by this tree, left out: {}", why(&e)),
            }
        }
        let n_lit = if tier == "thorough" { 24 } else { 10 };
        let lstrat = model::gen::literal_defs();
        got = 0;
        tries = 0;
        while got < n_lit && tries < n_lit * 40 {
            tries += 1;
            let def = lstrat.new_tree(&mut runner).unwrap().current();
            let Ok(p) = prepare(&def) else { continue };
            if p.graph.states.len() > 200 {
                continue;
            }
            total_states += p.graph.states.len();
            defs.push(SubjectDef { family: "lit".into(), def, skip_log: false, has_value: vec![], error_cb: false, twin: false });
            got += 1;
        }
    }
    if from_replay.is_none() {
        defs.extend(stress_defs());
    }
    // subjects that do not compile on the tree under test (found by the check script) become placeholders: the indices
    // of all other subjects stay what they were
    for &i in &exclude {
        if i < defs.len() {
            defs[i] = SubjectDef {
                family: "excluded".into(),
                def: model::spec::DefSpec { utf8: true, subpatterns: vec![], skips: vec![], variants: vec![vec![model::spec::PatSpec::token(model::spec::LitSpec::str("a"))]] },
                skip_log: false,
                has_value: vec![],
                error_cb: false,
                twin: false,
            };
        }
    }
    let set = SubjectSet { seed, tier: tier.clone(), defs };

    // workspace
    let mut members: Vec<String> = (0..shards).map(|k| format!("\"shard{k}\"")).collect();
    members.push("\"runner\"".into());
    let ws = format!(
        "[workspace]\nmembers = [{}]\nresolver = \"2\"\n\n[profile.dev]\nopt-level = 0\ndebug = false\nincremental = false\n\n[profile.dev.package.\"*\"]\nopt-level = 3\n\n[profile.dev.build-override]\nopt-level = 3\n\n[profile.release]\nopt-level = 2\ndebug = false\nincremental = false\ndebug-assertions = false\noverflow-checks = false\n",
        members.join(", ")
    );
    let mut changed = 0;
    changed += write_if_changed(&out.join("Cargo.toml"), &ws) as usize;
    changed += write_if_changed(&out.join(".cargo/config.toml"), "[net]\noffline = true\n") as usize;
    let lock = std::fs::read_to_string(hroot.join("Cargo.lock")).expect("harness lockfile");
    if !out.join("Cargo.lock").exists() {
        std::fs::write(out.join("Cargo.lock"), lock).unwrap();
    }
    let shard_toml = |k: usize| {
        format!(
            "[package]\nname = \"shard{k}\"\nversion = \"0.1.0\"\nedition = \"2021\"\n\n[dependencies]\nlogos = {{ path = \"/repo\", features = [\"verif_hooks\"] }}\nsubject-rt = {{ path = \"{hr}/subject-rt\" }}\n",
            hr = hroot.display()
        )
    };
    for k in 0..shards {
        changed += write_if_changed(&out.join(format!("shard{k}/Cargo.toml")), &shard_toml(k)) as usize;
        let mut src = String::from("// generated by subjgen - do not edit\n");
        let mut names = Vec::new();
        for (idx, sd) in set.defs.iter().enumerate() {
            if idx % shards == k {
                src.push_str(&render_module(idx, sd));
                names.push(idx);
            }
        }
        src.push_str("pub fn subjects() -> Vec<&'static dyn subject_rt::Subject> {\n    vec![");
        for idx in names {
            src.push_str(&format!("&d{idx}::S, "));
        }
        src.push_str("]\n}\n");
        changed += write_if_changed(&out.join(format!("shard{k}/src/lib.rs")), &src) as usize;
    }
    let mut deps = String::new();
    for k in 0..shards {
        deps.push_str(&format!("shard{k} = {{ path = \"../shard{k}\" }}\n"));
    }
    let runner_toml = format!(
        "[package]\nname = \"runner\"\nversion = \"0.1.0\"\nedition = \"2021\"\n\n[features]\nforbid_unsafe = [\"logos/forbid_unsafe\"]\nstate_machine_codegen = [\"logos/state_machine_codegen\"]\n\n[dependencies]\nlogos = {{ path = \"/repo\", features = [\"verif_hooks\"] }}\nsubject-rt = {{ path = \"{hr}/subject-rt\" }}\n{deps}",
        hr = hroot.display()
    );
    changed += write_if_changed(&out.join("runner/Cargo.toml"), &runner_toml) as usize;
    let mut main = String::from("// generated by subjgen - do not edit\nfn main() {\n    let mut subjects: Vec<&'static dyn subject_rt::Subject> = Vec::new();\n");
    for k in 0..shards {
        main.push_str(&format!("    subjects.extend(shard{k}::subjects());\n"));
    }
    main.push_str("    subjects.sort_by_key(|s| s.index());\n    let cfg = subject_rt::drivers::BuildCfg { forbid_unsafe: cfg!(feature = \"forbid_unsafe\"), state_machine: cfg!(feature = \"state_machine_codegen\"), release: !cfg!(debug_assertions) };\n    std::process::exit(subject_rt::drivers::main(&subjects, include_str!(\"../defs.json\"), cfg));\n}\n");
    changed += write_if_changed(&out.join("runner/src/main.rs"), &main) as usize;
    changed += write_if_changed(&out.join("runner/defs.json"), &serde_json::to_string(&set).unwrap()) as usize;
    eprintln!("subjgen: {} subjects ({} graph states) in {} shards, {} files changed, {} draws", set.defs.len(), total_states, shards, changed, tries);
}
