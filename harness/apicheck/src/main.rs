mod c05read;
mod c14;
mod c15;
mod defs;

use model::run::Args;

fn main() {
    let args = Args::parse();
    let cfg = format!(
        "{}{}{}",
        if cfg!(debug_assertions) { "debug" } else { "release" },
        if cfg!(feature = "forbid_unsafe") { "-safe" } else { "-unsafe" },
        if cfg!(feature = "state_machine_codegen") { "-sm" } else { "" }
    );
    let code = match args.prop.as_str() {
        "C14" => c14::main(&args, &cfg),
        "C15" => c15::main(&args, &cfg),
        "C05" => c05read::main(&args, &cfg),
        other => {
            eprintln!("unknown property {other}");
            2
        }
    };
    std::process::exit(code);
}
