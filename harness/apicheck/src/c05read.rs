//! C05 (Source::read): returns a chunk exactly when offset + size <= len (without overflow) and then
//! holds the bytes at that offset. Sources live in exactly sized heap allocations.

use logos::Source;
use proptest::collection::vec;
use proptest::prelude::*;
use serde_json::json;

use model::run::{drive, report_violation, Args, DriveResult, Run};
use model::{fnv, hex, unhex};

#[derive(Clone, Debug)]
pub struct Case {
    pub kind: u8,
    pub content: Vec<u8>,
    pub offset: usize,
    /// when set, the offset is usize::MAX - address(source) - k (chunks straddling the top of the address space)
    pub addr_rel: Option<usize>,
}

pub fn case_strategy() -> BoxedStrategy<Case> {
    let off = prop_oneof![
        6 => (0usize..80).prop_map(|o| (0u8, o)),
        3 => (0usize..40).prop_map(|o| (1u8, o)),
        2 => (0usize..40).prop_map(|k| (2u8, k)),
        2 => (0usize..40).prop_map(|k| (3u8, k)),
    ];
    (0u8..6, vec(any::<u8>(), 0..48), off)
        .prop_map(|(kind, content, (mode, o))| {
            // str-like kinds need valid UTF-8: map bytes to ASCII
            let content: Vec<u8> = if kind % 2 == 0 { content.into_iter().map(|b| b & 0x7f).collect() } else { content };
            let len = content.len();
            let offset = match mode {
                0 => o,
                1 => (len + 33).saturating_sub(o),
                _ => usize::MAX - o,
            };
            Case { kind, content, offset, addr_rel: if mode == 3 { Some(o) } else { None } }
        })
        .boxed()
}

/// (chunk size, returned Some?, bytes - only dereferenced when the chunk is in bounds, so that a wrong
/// `Some` is reported instead of being dereferenced)
fn read_n<S: Source + ?Sized, const N: usize>(s: &S, offset: usize, len: usize) -> (usize, bool, Option<Vec<u8>>) {
    let r = s.read::<&[u8; N]>(offset);
    let in_bounds = offset.checked_add(N).map_or(false, |e| e <= len);
    (N, r.is_some(), if in_bounds { r.map(|a| a.to_vec()) } else { None })
}

fn reads<S: Source + ?Sized>(s: &S, offset: usize, len: usize) -> Vec<(usize, bool, Option<Vec<u8>>)> {
    let b = s.read::<u8>(offset);
    vec![
        (1, b.is_some(), b.map(|b| vec![b])),
        read_n::<S, 0>(s, offset, len),
        read_n::<S, 1>(s, offset, len),
        read_n::<S, 2>(s, offset, len),
        read_n::<S, 3>(s, offset, len),
        read_n::<S, 4>(s, offset, len),
        read_n::<S, 7>(s, offset, len),
        read_n::<S, 8>(s, offset, len),
        read_n::<S, 9>(s, offset, len),
        read_n::<S, 16>(s, offset, len),
        read_n::<S, 31>(s, offset, len),
        read_n::<S, 32>(s, offset, len),
        read_n::<S, 33>(s, offset, len),
    ]
}

pub fn interpret(case: &Case, run: Option<&mut Run>) -> Result<(), String> {
    let bytes = &case.content;
    let len = bytes.len();
    let off = |p: *const u8| -> usize {
        match case.addr_rel {
            Some(k) => (usize::MAX - p as usize).saturating_sub(k).max(len + 1),
            None => case.offset,
        }
    };
    let mut used = case.offset;
    // `read` never panics: out of range is `None` (in the safe build a bounds-check panic is exactly what the property excludes)
    let got = std::panic::catch_unwind(std::panic::AssertUnwindSafe(|| match case.kind {
        0 => {
            let s: Box<str> = String::from_utf8(bytes.clone()).unwrap().into_boxed_str();
            { used = off(s.as_ptr()); reads::<str>(&s, used, len) }
        }
        1 => {
            let b: Box<[u8]> = bytes.clone().into_boxed_slice();
            { used = off(b.as_ptr()); reads::<[u8]>(&b, used, len) }
        }
        2 => {
            let s: String = String::from_utf8(bytes.clone()).unwrap();
            { used = off(s.as_ptr()); reads::<String>(&s, used, len) }
        }
        3 => {
            let v: Vec<u8> = bytes.clone();
            { used = off(v.as_ptr()); reads::<Vec<u8>>(&v, used, len) }
        }
        4 => {
            let s: Box<str> = String::from_utf8(bytes.clone()).unwrap().into_boxed_str();
            { used = off(s.as_ptr()); reads::<Box<str>>(&s, used, len) }
        }
        _ => {
            let b: Box<[u8]> = bytes.clone().into_boxed_slice();
            let r: &[u8] = &b;
            { used = off(r.as_ptr()); reads::<&[u8]>(&r, used, len) }
        }
    }));
    let got = match got {
        Ok(g) => g,
        Err(e) => {
            let msg = e.downcast_ref::<String>().cloned().or_else(|| e.downcast_ref::<&str>().map(|s| s.to_string())).unwrap_or_default();
            return Err(format!("Source::read panicked at offset {} on a {len}-byte source (kind {}): {msg}", used, case.kind));
        }
    };
    for (n, some, g) in &got {
        let expect = used.checked_add(*n).filter(|&e| e <= len).map(|e| bytes[used..e].to_vec());
        if *some != expect.is_some() {
            return Err(format!("read of a {n}-byte chunk at offset {} on a {len}-byte source (kind {}) returned {}, expected {}", used, case.kind, if *some { "Some" } else { "None" }, if expect.is_some() { "Some" } else { "None" }));
        }
        if *g != expect {
            return Err(format!("read of a {n}-byte chunk at offset {} on a {len}-byte source (kind {}) returned {:?}, expected {:?}", used, case.kind, g, expect));
        }
    }
    if let Some(run) = run {
        run.eval(got.len() as u64);
        let near = case.offset.saturating_add(33) >= len && case.offset <= len + 33;
        if near || case.offset > usize::MAX - 64 {
            let mut k = bytes.clone();
            k.extend(case.offset.to_le_bytes());
            k.push(case.kind);
            run.nontrivial(fnv(&k));
        }
        if case.offset > usize::MAX - 64 {
            run.count("offsets_near_usize_max", 1);
        }
        if case.addr_rel.is_some() {
            run.count("offsets_near_usize_max_minus_address", 1);
        }
        run.sample(|| json!({"kind": case.kind, "len": len, "offset": case.offset}));
    }
    Ok(())
}

/// Every `Source` method of a wrapper that reaches `Source` through the Deref blanket impl must answer like its target.
fn deref_conformance(c: &(Vec<char>, u8, u8), run: Option<&mut Run>) -> Result<(), String> {
    use logos::Source;
    let text: String = c.0.iter().collect();
    let len = text.len();
    // indices within the source (find_boundary is only defined up to len)
    let i = (c.1 as usize * (len + 1)) >> 8;
    let j = i + ((c.2 as usize * (len - i + 1)) >> 8);
    let target: &str = &text;
    let boxed: Box<str> = text.clone().into_boxed_str();
    let rc: std::rc::Rc<str> = text.as_str().into();
    let refref: &&str = &target;
    macro_rules! same {
        ($w:expr, $name:literal) => {{
            let w = $w;
            if Source::len(w) != Source::len(target) {
                return Err(format!("{}: len() {} but the target str has {}", $name, Source::len(w), Source::len(target)));
            }
            if Source::is_boundary(w, i) != Source::is_boundary(target, i) {
                return Err(format!("{}: is_boundary({i}) = {} but the target str says {} (text {text:?})", $name, Source::is_boundary(w, i), Source::is_boundary(target, i)));
            }
            if Source::find_boundary(w, i) != Source::find_boundary(target, i) {
                return Err(format!("{}: find_boundary({i}) = {} but the target str gives {} (text {text:?}): an error ending there would split a code point", $name, Source::find_boundary(w, i), Source::find_boundary(target, i)));
            }
            if Source::slice(w, i..j).map(|x| x.as_bytes().to_vec()) != Source::slice(target, i..j).map(|x| x.as_bytes().to_vec()) {
                return Err(format!("{}: slice({i}..{j}) differs from the target str's (text {text:?})", $name));
            }
            if Source::read::<u8>(w, i) != Source::read::<u8>(target, i) || Source::read::<&[u8; 3]>(w, i) != Source::read::<&[u8; 3]>(target, i) {
                return Err(format!("{}: read({i}) differs from the target str's (text {text:?})", $name));
            }
        }};
    }
    same!(&text, "String");
    same!(&boxed, "Box<str>");
    same!(&rc, "Rc<str>");
    same!(refref, "&&str");
    let bytes: &[u8] = text.as_bytes();
    let vec: Vec<u8> = bytes.to_vec();
    let bbox: Box<[u8]> = bytes.to_vec().into_boxed_slice();
    macro_rules! same_b {
        ($w:expr, $name:literal) => {{
            let w = $w;
            if Source::len(w) != Source::len(bytes) || Source::is_boundary(w, i) != Source::is_boundary(bytes, i) || Source::find_boundary(w, i) != Source::find_boundary(bytes, i) {
                return Err(format!("{}: len / is_boundary({i}) / find_boundary({i}) differ from the target [u8]'s", $name));
            }
            if Source::slice(w, i..j) != Source::slice(bytes, i..j) || Source::read::<u8>(w, i) != Source::read::<u8>(bytes, i) {
                return Err(format!("{}: slice({i}..{j}) / read({i}) differ from the target [u8]'s", $name));
            }
        }};
    }
    same_b!(&vec, "Vec<u8>");
    same_b!(&bbox, "Box<[u8]>");
    if let Some(run) = run {
        run.eval(6);
        run.count("deref_conformance_cases", 1);
        if !text.is_ascii() && !text.is_char_boundary(i) {
            run.nontrivial(model::fnv(text.as_bytes()) ^ i as u64);
        }
    }
    Ok(())
}

pub fn main(args: &Args, cfg: &str) -> i32 {
    let mut run = Run::new(
        "C05",
        &args.tier,
        args.seed,
        "Source::read: proptest over source kind (Box<str>, Box<[u8]>, String, Vec<u8>, Box<str> via Deref, &[u8] via Deref) x content x offset in {0..80, len+33-k, usize::MAX-k, usize::MAX-address(source)-k} x chunk types u8 and &[u8;N], N in {0,1,2,3,4,7,8,9,16,31,32,33}; oracle: Some(c) iff offset.checked_add(N) <= len, and then c == bytes[offset..offset+N]; exactly sized heap allocations (ASan configuration sees any over-read); plus Deref-source conformance: String, Box<str>, Rc<str>, &&str, Vec<u8>, Box<[u8]> answer len / is_boundary / find_boundary / slice / read like their target for every index within the source; evaluation = one read; non-trivial = distinct (source, offset) with the offset within 33 of len or within 64 of usize::MAX",
    );
    run.assumptions = vec![format!("build configuration {cfg}")];
    if let Some(path) = &args.replay {
        let v: serde_json::Value = serde_json::from_str(&std::fs::read_to_string(path).unwrap()).unwrap();
        if let Some(t) = v["deref_text"].as_str() {
            let c = (t.chars().collect::<Vec<char>>(), v["deref_i"].as_u64().unwrap_or(0) as u8, v["deref_j"].as_u64().unwrap_or(0) as u8);
            return match deref_conformance(&c, None) {
                Ok(()) => {
                    println!("replay: no violation of C05 (Deref sources) in {cfg}");
                    0
                }
                Err(m) => {
                    println!("replay[{cfg}]: {m}");
                    println!("VIOLATION property=C05 replay={}", path.display());
                    1
                }
            };
        }
        let case = Case { kind: v["kind"].as_u64().unwrap() as u8, content: unhex(v["content_hex"].as_str().unwrap()), offset: v["offset"].as_u64().unwrap() as usize, addr_rel: v["addr_rel"].as_u64().map(|x| x as usize) };
        return match interpret(&case, None) {
            Ok(()) => {
                println!("replay: no violation of C05 (read) in {cfg}");
                0
            }
            Err(m) => {
                println!("replay[{cfg}]: {m}");
                println!("VIOLATION property=C05 replay={}", path.display());
                1
            }
        };
    }
    if let Some(path) = &args.replay {
        let _ = path;
    }
    let cases = if args.cases > 0 { args.cases } else if args.thorough() { 600000 } else { 60000 };
    let res = drive(&case_strategy(), cases, args.seed ^ 0xC05, 2000, &mut run, |c, run| interpret(c, Some(run)));
    // second part: a source reached through the Deref blanket impl (String, Box<str>, Rc<str>, &&str, Vec<u8>, Box<[u8]>)
    // answers every Source method exactly like its target
    let res = match res {
        DriveResult::Pass => {
            let strat = (proptest::collection::vec(prop_oneof![3 => proptest::sample::select(&['a', 'é', '€', '😀', 'ÿ', '\u{7ff}', '\u{ffff}', ' ', '0'][..]), 1 => any::<char>()], 0..8), any::<u8>(), any::<u8>());
            match drive(&strat.boxed(), (cases / 20).max(200), args.seed ^ 0xC05D, 500, &mut run, |c, run| deref_conformance(c, Some(run))) {
                DriveResult::Pass => DriveResult::Pass,
                DriveResult::Fail(c) => {
                    let msg = deref_conformance(&c, None).err().unwrap_or_default();
                    run.violations = 1;
                    let text: String = c.0.iter().collect();
                    report_violation("C05", &args.replay_dir, &json!({"property": "C05", "tier": "A", "config": cfg, "deref_text": text, "deref_i": c.1, "deref_j": c.2, "findings": [{"property": "C05", "what": msg}]}));
                    run.write_evidence(&args.evidence);
                    return 1;
                }
                DriveResult::Abort(m) => DriveResult::Abort(m),
            }
        }
        other => other,
    };
    let code = match res {
        DriveResult::Pass => 0,
        DriveResult::Fail(case) => {
            let msg = interpret(&case, None).err().unwrap_or_default();
            run.violations = 1;
            report_violation("C05", &args.replay_dir, &json!({"property": "C05", "tier": "A", "config": cfg, "kind": case.kind, "content_hex": hex(&case.content), "offset": case.offset, "addr_rel": case.addr_rel, "findings": [{"property": "C05", "what": msg}]}));
            1
        }
        DriveResult::Abort(m) => {
            eprintln!("aborted: {m}");
            2
        }
    };
    run.write_evidence(&args.evidence);
    code
}
