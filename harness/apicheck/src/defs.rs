//! Fixed definition pairs sharing a source type (str and bytes), with skips, callbacks touching
//! extras, multi-byte tokens.

use logos::{Lexer, Logos};

pub trait TokId {
    fn id(&self) -> u32;
}

fn count<'s, T: Logos<'s, Extras = u64>>(lex: &mut Lexer<'s, T>) {
    // position independent (the model re-lexes suffixes)
    lex.extras = lex.extras.wrapping_mul(31).wrapping_add(lex.span().len() as u64 + 1);
}

#[derive(Logos, Debug, Clone, Copy, PartialEq)]
#[logos(extras = u64)]
#[logos(skip r"[ \t\n]+")]
pub enum StrA {
    #[regex(r"[a-zA-Zé-ÿ_][a-zA-Zé-ÿ_0-9]*")]
    Ident,
    #[regex(r"[0-9]+", count)]
    Num,
    #[token("日本")]
    Nihon,
    #[token("+")]
    Plus,
    #[token("==")]
    EqEq,
    #[token("=")]
    Eq,
    #[regex(r#""[^"]*""#)]
    Str,
    #[regex(r"//[^\n]*", logos::skip, allow_greedy = true)]
    Comment,
}
impl TokId for StrA {
    fn id(&self) -> u32 {
        *self as u32
    }
}

#[derive(Logos, Debug, Clone, Copy, PartialEq)]
#[logos(extras = u64)]
#[logos(skip " ")]
pub enum StrB {
    #[regex(r"\w+", count)]
    Word,
    #[regex(r"[^\w ]")]
    Other,
    #[token("\n\n")]
    Para,
    #[token("日")]
    Day,
    #[regex(r"é+x?", priority = 5)]
    Acute,
}
impl TokId for StrB {
    fn id(&self) -> u32 {
        100 + *self as u32
    }
}

#[derive(Logos, Debug, Clone, Copy, PartialEq)]
#[logos(extras = u64, utf8 = false)]
#[logos(skip b"[ \t\n]+")]
pub enum BytesA {
    #[regex(b"[a-z]+")]
    Lower,
    #[regex(b"[0-9]+", count)]
    Num,
    #[regex(b"[\x80-\xff]+")]
    High,
    #[token(b"\x00\x00")]
    Zeros,
    #[token(b"\x00")]
    Zero,
    #[regex(b"<[^>]*>")]
    Tag,
}
impl TokId for BytesA {
    fn id(&self) -> u32 {
        200 + *self as u32
    }
}

#[derive(Logos, Debug, Clone, Copy, PartialEq)]
#[logos(extras = u64, utf8 = false)]
#[logos(skip b"\x00+")]
pub enum BytesB {
    #[regex(b"[a-z0-9]+", count)]
    Alnum,
    #[regex(b"\\s")]
    Space,
    #[regex("é+")]
    Acute,
    #[regex(b"(?-u:[\\x80-\\xbf])")]
    Cont,
    #[regex(b"[<>]")]
    Angle,
}
impl TokId for BytesB {
    fn id(&self) -> u32 {
        300 + *self as u32
    }
}

/// A family member knows the other definition over the same source.
pub trait Fam<'s>: Logos<'s, Extras = u64, Error = ()> + Clone + TokId + 's {
    type Other: Fam<'s, Source = <Self as Logos<'s>>::Source, Other = Self>;
    const NAME: &'static str;
}
impl<'s> Fam<'s> for StrA {
    type Other = StrB;
    const NAME: &'static str = "StrA";
}
impl<'s> Fam<'s> for StrB {
    type Other = StrA;
    const NAME: &'static str = "StrB";
}
impl<'s> Fam<'s> for BytesA {
    type Other = BytesB;
    const NAME: &'static str = "BytesA";
}
impl<'s> Fam<'s> for BytesB {
    type Other = BytesA;
    const NAME: &'static str = "BytesB";
}

// ---------------------------------------------------------------------------------------------
// Hand-written `Logos` implementations over Deref-wrapped sources (the blanket `impl Source for T:
// Deref`): the derive only produces `str` / `[u8]` sources, `Lexer::bump` must hold for all sources.

macro_rules! manual_str {
    ($name:ident, $src:ty) => {
        #[derive(Debug, Clone, Copy, PartialEq)]
        pub struct $name;
        impl<'s> Logos<'s> for $name {
            type Extras = ();
            type Source = $src;
            type Error = ();
            fn lex(lex: &mut Lexer<'s, Self>) -> Option<Result<Self, ()>> {
                let rem: &str = lex.remainder();
                let c = rem.chars().next()?;
                lex.bump(c.len_utf8());
                Some(Ok($name))
            }
        }
    };
}
manual_str!(ManualString, String);
manual_str!(ManualBoxStr, Box<str>);
manual_str!(ManualRcStr, std::rc::Rc<str>);

#[derive(Debug, Clone, Copy, PartialEq)]
pub struct ManualVec;
impl<'s> Logos<'s> for ManualVec {
    type Extras = ();
    type Source = Vec<u8>;
    type Error = ();
    fn lex(lex: &mut Lexer<'s, Self>) -> Option<Result<Self, ()>> {
        let rem: &[u8] = lex.remainder();
        if rem.is_empty() {
            return None;
        }
        lex.bump(1);
        Some(Ok(ManualVec))
    }
}
