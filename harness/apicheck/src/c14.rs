//! C14: accessors, clone, morph, spanned in any call order - op sequences interpreted against the
//! real lexer and a reference model in lock-step. The expected result of `next` is the first item of
//! a fresh lexer of the same definition and mode over source[end..] (shifted), because no pattern
//! can see text before the token start.

use std::ops::Range;

use logos::{Lexer, Logos, Source, SpannedIter};
use proptest::collection::vec;
use proptest::prelude::*;
use serde_json::json;

use model::run::{drive, report_violation, Args, DriveResult, Run};
use model::{fnv, hex, show, unhex};

use crate::defs::*;

pub trait Bytes {
    fn b(&self) -> &[u8];
    fn sub(&self, from: usize) -> &Self;
    fn boundary(&self, i: usize) -> bool;
    /// some other source of the same type (target of `clone_from`)
    fn alt<'a>() -> &'a Self;
}
impl Bytes for str {
    fn alt<'a>() -> &'a Self {
        "zz 99 == \"q\" é\n_x1 +"
    }
    fn b(&self) -> &[u8] {
        self.as_bytes()
    }
    fn sub(&self, from: usize) -> &Self {
        &self[from..]
    }
    fn boundary(&self, i: usize) -> bool {
        self.is_char_boundary(i)
    }
}
impl Bytes for [u8] {
    fn alt<'a>() -> &'a Self {
        b"<a> 12 \x80\xff\xfe xyz\n0"
    }
    fn b(&self) -> &[u8] {
        self
    }
    fn sub(&self, from: usize) -> &Self {
        &self[from..]
    }
    fn boundary(&self, i: usize) -> bool {
        i <= self.len()
    }
}

type Out = Option<Result<u32, ()>>;

/// Object-safe view of a lexer (plain or wrapped in SpannedIter) of either definition of a family.
pub trait Dyn<'s> {
    fn name(&self) -> String;
    fn next_item(&mut self) -> (Out, Option<Range<usize>>);
    fn span(&self) -> Range<usize>;
    fn slice(&self) -> Vec<u8>;
    fn remainder(&self) -> Vec<u8>;
    fn source_len(&self) -> usize;
    fn bump(&mut self, n: usize);
    fn extras(&mut self) -> &mut u64;
    fn dup(&self) -> Box<dyn Dyn<'s> + 's>;
    /// `other.clone_from(self)` where `other` is a lexer of the same type over another source, in the mode chosen by `k`,
    /// advanced by up to three items
    fn dup_via_clone_from(&self, k: u8) -> Box<dyn Dyn<'s> + 's>;
    fn morph(self: Box<Self>) -> Box<dyn Dyn<'s> + 's>;
    fn spanned(self: Box<Self>) -> Box<dyn Dyn<'s> + 's>;
    fn is_spanned(&self) -> bool;
    /// fresh lexer of the same definition and mode over `src[from..]` with the given extras
    fn fresh(&self, from: usize, extras: u64, partial: bool) -> Box<dyn Dyn<'s> + 's>;
}

fn out<T: TokId>(r: Option<Result<T, ()>>) -> Out {
    r.map(|x| x.map(|t| t.id()))
}

impl<'s, T> Dyn<'s> for Lexer<'s, T>
where
    T: Fam<'s>,
    T::Source: Bytes,
    <T::Source as Source>::Slice<'s>: AsRef<[u8]>,
{
    fn name(&self) -> String {
        T::NAME.to_string()
    }
    fn next_item(&mut self) -> (Out, Option<Range<usize>>) {
        (out(Iterator::next(self)), None)
    }
    fn span(&self) -> Range<usize> {
        Lexer::span(self)
    }
    fn slice(&self) -> Vec<u8> {
        Lexer::slice(self).as_ref().to_vec()
    }
    fn remainder(&self) -> Vec<u8> {
        Lexer::remainder(self).as_ref().to_vec()
    }
    fn source_len(&self) -> usize {
        self.source().b().len()
    }
    fn bump(&mut self, n: usize) {
        Lexer::bump(self, n)
    }
    fn extras(&mut self) -> &mut u64 {
        &mut self.extras
    }
    fn dup(&self) -> Box<dyn Dyn<'s> + 's> {
        Box::new(self.clone())
    }
    fn dup_via_clone_from(&self, k: u8) -> Box<dyn Dyn<'s> + 's> {
        let alt: &'s T::Source = <T::Source as Bytes>::alt();
        let mut other = if k % 2 == 0 { Lexer::<T>::with_extras(alt, 4242) } else { Lexer::<T>::partial_with_extras(alt, 4242) };
        for _ in 0..(k / 2 % 4) {
            let _ = Iterator::next(&mut other);
        }
        other.clone_from(self);
        Box::new(other)
    }
    fn morph(self: Box<Self>) -> Box<dyn Dyn<'s> + 's> {
        Box::new((*self).morph::<T::Other>())
    }
    fn spanned(self: Box<Self>) -> Box<dyn Dyn<'s> + 's> {
        Box::new((*self).spanned())
    }
    fn is_spanned(&self) -> bool {
        false
    }
    fn fresh(&self, from: usize, extras: u64, partial: bool) -> Box<dyn Dyn<'s> + 's> {
        let src: &'s T::Source = self.source().sub(from);
        if partial {
            Box::new(Lexer::<T>::partial_with_extras(src, extras))
        } else {
            Box::new(Lexer::<T>::with_extras(src, extras))
        }
    }
}

impl<'s, T> Dyn<'s> for SpannedIter<'s, T>
where
    T: Fam<'s>,
    T::Source: Bytes,
    <T::Source as Source>::Slice<'s>: AsRef<[u8]>,
{
    fn name(&self) -> String {
        format!("Spanned<{}>", T::NAME)
    }
    fn next_item(&mut self) -> (Out, Option<Range<usize>>) {
        match Iterator::next(self) {
            None => (None, None),
            Some((r, sp)) => (Some(r.map(|t| t.id())), Some(sp)),
        }
    }
    fn span(&self) -> Range<usize> {
        Lexer::span(self)
    }
    fn slice(&self) -> Vec<u8> {
        Lexer::slice(self).as_ref().to_vec()
    }
    fn remainder(&self) -> Vec<u8> {
        Lexer::remainder(self).as_ref().to_vec()
    }
    fn source_len(&self) -> usize {
        self.source().b().len()
    }
    fn bump(&mut self, n: usize) {
        Lexer::bump(self, n)
    }
    fn extras(&mut self) -> &mut u64 {
        &mut self.extras
    }
    fn dup(&self) -> Box<dyn Dyn<'s> + 's> {
        Box::new(self.clone())
    }
    fn dup_via_clone_from(&self, k: u8) -> Box<dyn Dyn<'s> + 's> {
        let alt: &'s T::Source = <T::Source as Bytes>::alt();
        let mut other = if k % 2 == 0 { Lexer::<T>::with_extras(alt, 4242).spanned() } else { Lexer::<T>::partial_with_extras(alt, 4242).spanned() };
        for _ in 0..(k / 2 % 4) {
            let _ = Iterator::next(&mut other);
        }
        other.clone_from(self);
        Box::new(other)
    }
    fn morph(self: Box<Self>) -> Box<dyn Dyn<'s> + 's> {
        // SpannedIter cannot be unwrapped; morph is not available on it
        self
    }
    fn spanned(self: Box<Self>) -> Box<dyn Dyn<'s> + 's> {
        self
    }
    fn is_spanned(&self) -> bool {
        true
    }
    fn fresh(&self, from: usize, extras: u64, partial: bool) -> Box<dyn Dyn<'s> + 's> {
        let src: &'s T::Source = self.source().sub(from);
        if partial {
            Box::new(Lexer::<T>::partial_with_extras(src, extras))
        } else {
            Box::new(Lexer::<T>::with_extras(src, extras))
        }
    }
}

#[derive(Clone, Debug)]
pub enum Op {
    Next,
    Bump(u16),
    /// clone, run both to exhaustion on copies, compare; continue with the original
    CloneCheck,
    /// clone and continue with the clone (dropping the original)
    CloneSwitch,
    /// `other.clone_from(&lex)` into a lexer over another source / in another mode, continue with `other`
    CloneFrom(u8),
    Morph,
    Spanned,
    Accessors,
    Extras(u8),
}

pub fn op_strategy() -> BoxedStrategy<Op> {
    prop_oneof![
        8 => Just(Op::Next),
        3 => any::<u16>().prop_map(Op::Bump),
        2 => Just(Op::CloneCheck),
        1 => Just(Op::CloneSwitch),
        2 => any::<u8>().prop_map(Op::CloneFrom),
        3 => Just(Op::Morph),
        1 => Just(Op::Spanned),
        3 => Just(Op::Accessors),
        1 => any::<u8>().prop_map(Op::Extras),
    ]
    .boxed()
}

const STR_ATOMS: &[&str] = &[
    "a", "bc", "é", "ÿz", "_x1", "日本", "日", "12", "0", "+", "=", "==", "\"q\"", "\"", " ", "\n", "\n\n", "\t", "// c\n", "//", "😀", "ß", "ééx", "x", "-",
];
const BYTE_ATOMS: &[&[u8]] = &[
    b"a", b"xyz", b"12", b"0", b" ", b"\n", b"\x00", b"\x00\x00", b"\x80", b"\xff\xfe", b"<a>", b"<", b">", b"\xc3\xa9", b"\xc3", b"\xa9", b"-", b"\t",
];

#[derive(Clone, Debug)]
pub struct Case {
    pub bytes_mode: bool,
    pub start_b: bool,
    pub partial: bool,
    pub input: Vec<u8>,
    pub ops: Vec<Op>,
}

pub fn case_strategy() -> BoxedStrategy<Case> {
    (any::<bool>(), any::<bool>(), prop::bool::weighted(0.3), vec((any::<u8>(), proptest::option::weighted(0.12, crate::c15::edge_char())), 0..14), vec(op_strategy(), 0..30))
        .prop_map(|(bytes_mode, start_b, partial, atoms, ops)| {
            let mut input = Vec::new();
            for (a, c) in atoms {
                if bytes_mode {
                    input.extend_from_slice(BYTE_ATOMS[(a as usize * BYTE_ATOMS.len()) >> 8]);
                } else if let Some(c) = c {
                    input.extend_from_slice(c.encode_utf8(&mut [0; 4]).as_bytes());
                } else {
                    input.extend_from_slice(STR_ATOMS[(a as usize * STR_ATOMS.len()) >> 8].as_bytes());
                }
            }
            Case { bytes_mode, start_b, partial, input, ops }
        })
        .boxed()
}

struct Model {
    start: usize,
    end: usize,
    extras: u64,
    is_b: bool,
    partial: bool,
}

fn drain<'s>(l: &mut (dyn Dyn<'s> + 's), len: usize) -> Vec<(Out, Range<usize>, u64)> {
    let mut v = Vec::new();
    for _ in 0..(2 * len + 6) {
        let (o, _) = l.next_item();
        let sp = l.span();
        let e = *l.extras();
        let done = o.is_none();
        v.push((o, sp, e));
        if done {
            break;
        }
    }
    v
}

fn legal_bumps(src: &[u8], is_str: bool, end: usize) -> Vec<usize> {
    let s = if is_str { std::str::from_utf8(src).ok() } else { None };
    (0..=src.len() - end).filter(|n| s.map(|s| s.is_char_boundary(end + n)).unwrap_or(true)).collect()
}

/// Interpret the history; Err(description) on the first disagreement.
pub fn interpret(case: &Case, run: Option<&mut Run>) -> Result<(), String> {
    let src_bytes: &[u8] = &case.input;
    let text: &str = if case.bytes_mode { "" } else { std::str::from_utf8(src_bytes).expect("str atoms are valid UTF-8") };
    let mut lex: Box<dyn Dyn<'_> + '_> = match (case.bytes_mode, case.start_b, case.partial) {
        (false, false, false) => Box::new(Lexer::<StrA>::with_extras(text, 7)),
        (false, false, true) => Box::new(Lexer::<StrA>::partial_with_extras(text, 7)),
        (false, true, false) => Box::new(Lexer::<StrB>::with_extras(text, 7)),
        (false, true, true) => Box::new(Lexer::<StrB>::partial_with_extras(text, 7)),
        (true, false, false) => Box::new(Lexer::<BytesA>::with_extras(src_bytes, 7)),
        (true, false, true) => Box::new(Lexer::<BytesA>::partial_with_extras(src_bytes, 7)),
        (true, true, false) => Box::new(Lexer::<BytesB>::with_extras(src_bytes, 7)),
        (true, true, true) => Box::new(Lexer::<BytesB>::partial_with_extras(src_bytes, 7)),
    };
    let len = src_bytes.len();
    let mut m = Model { start: 0, end: 0, extras: 7, is_b: case.start_b, partial: case.partial };
    let mut flags = (false, false, false, false); // morph-after-bump, clone mid-stream, accessor after morph, remainder after skip
    let mut last_was_bump = false;
    let mut last_was_morph = false;
    let mut evals = 0u64;
    let check_acc = |lex: &mut Box<dyn Dyn<'_> + '_>, m: &Model, when: &str| -> Result<(), String> {
        let sp = lex.span();
        // checked before slice() / remainder() are called: off a boundary, source[span()] does not exist
        if sp.start > sp.end || sp.end > len || (!case.bytes_mode && !(text.is_char_boundary(sp.start) && text.is_char_boundary(sp.end))) {
            return Err(format!("{when}: span() = {sp:?} is not a range of the source ({len} bytes{}): source[span()] does not exist", if case.bytes_mode { "" } else { ", str: both ends must be char boundaries" }));
        }
        if sp != (m.start..m.end) {
            return Err(format!("{when}: span() = {sp:?}, model {}..{}", m.start, m.end));
        }
        if lex.slice() != src_bytes[m.start..m.end] {
            return Err(format!("{when}: slice() = {} but source[{}..{}] = {}", show(&lex.slice()), m.start, m.end, show(&src_bytes[m.start..m.end])));
        }
        if lex.remainder() != src_bytes[m.end..] {
            return Err(format!("{when}: remainder() = {} but source[{}..] = {}", show(&lex.remainder()), m.end, show(&src_bytes[m.end..])));
        }
        if lex.source_len() != len {
            return Err(format!("{when}: source() has length {}, expected {len}", lex.source_len()));
        }
        if *lex.extras() != m.extras {
            return Err(format!("{when}: extras = {}, model {}", *lex.extras(), m.extras));
        }
        Ok(())
    };
    check_acc(&mut lex, &m, "initially")?;
    for (i, op) in case.ops.iter().enumerate() {
        let when = format!("after op #{i} {op:?} on {}", lex.name());
        evals += 1;
        match op {
            Op::Next => {
                let mut fresh = lex.fresh(m.end, m.extras, m.partial);
                let (fo, _) = fresh.next_item();
                let fsp = fresh.span();
                let fex = *fresh.extras();
                let (o, pair_span) = lex.next_item();
                if o != fo {
                    return Err(format!("{when}: next() = {o:?}, a fresh lexer over source[{}..] yields {fo:?}", m.end));
                }
                let base = m.end;
                m.start = base + fsp.start;
                m.end = base + fsp.end;
                m.extras = fex;
                if lex.is_spanned() {
                    if let Some(ps) = pair_span {
                        if ps != (m.start..m.end) {
                            return Err(format!("{when}: spanned() paired the item with {ps:?}, manual iteration gives {}..{}", m.start, m.end));
                        }
                    }
                }
                // remainder after a skip: the attempt moved the start past skipped bytes
                if fsp.start > 0 {
                    flags.3 = true;
                }
                last_was_bump = false;
                last_was_morph = false;
            }
            Op::Bump(k) => {
                let legal = legal_bumps(src_bytes, !case.bytes_mode, m.end);
                let n = legal[(*k as usize * legal.len()) >> 16];
                // an in-range bump (new end within the source, on a char boundary) must not panic
                let r = std::panic::catch_unwind(std::panic::AssertUnwindSafe(|| lex.bump(n)));
                if r.is_err() {
                    return Err(format!("{when}: in-range bump({n}) at end {} of a source of {len} bytes panicked", m.end));
                }
                m.end += n;
                last_was_bump = n > 0;
                last_was_morph = false;
            }
            Op::CloneFrom(k) => {
                let mut c = lex.dup_via_clone_from(*k);
                flags.1 = true;
                check_acc(&mut c, &m, &format!("{when} (the target of clone_from)"))?;
                lex = c;
                last_was_morph = false;
            }
            Op::CloneCheck | Op::CloneSwitch => {
                let mut c = lex.dup();
                if m.end > 0 && m.end < len {
                    flags.1 = true;
                }
                check_acc(&mut c, &m, &format!("{when} (the clone)"))?;
                if matches!(op, Op::CloneCheck) {
                    // run the clone and a second clone to exhaustion: same stream, original untouched
                    let mut c2 = lex.dup();
                    let a = drain(&mut *c, len);
                    let b = drain(&mut *c2, len);
                    if a != b {
                        return Err(format!("{when}: two clones produce different streams {a:?} vs {b:?}"));
                    }
                    // and the stream equals what the original produces (checked on another copy taken before)
                    let mut fresh = lex.fresh(m.end, m.extras, m.partial);
                    let f = drain(&mut *fresh, len);
                    let shifted: Vec<_> = f.into_iter().map(|(o, sp, e)| (o, (sp.start + m.end)..(sp.end + m.end), e)).collect();
                    if a != shifted {
                        return Err(format!("{when}: clone continues with {a:?}, expected {shifted:?}"));
                    }
                    check_acc(&mut lex, &m, &format!("{when} (original after its clones ran)"))?;
                } else {
                    lex = c;
                }
                last_was_morph = false;
            }
            Op::Morph => {
                if !lex.is_spanned() {
                    lex = lex.morph();
                    m.is_b = !m.is_b;
                    if last_was_bump {
                        flags.0 = true;
                    }
                    last_was_morph = true;
                }
            }
            Op::Spanned => {
                lex = lex.spanned();
                last_was_morph = false;
            }
            Op::Accessors => {
                if last_was_morph {
                    flags.2 = true;
                }
            }
            Op::Extras(k) => {
                let e = lex.extras();
                *e = e.wrapping_add(*k as u64);
                m.extras = m.extras.wrapping_add(*k as u64);
            }
        }
        check_acc(&mut lex, &m, &when)?;
    }
    if let Some(run) = run {
        run.eval(evals.max(1));
        let key = {
            let mut k = case.input.clone();
            k.extend(format!("{:?}{}{}{}", case.ops, case.bytes_mode, case.start_b, case.partial).bytes());
            fnv(&k)
        };
        if flags.0 || flags.1 || flags.2 || flags.3 {
            run.nontrivial(key);
        }
        for (f, n) in [(flags.0, "histories_with_morph_after_bump"), (flags.1, "histories_with_clone_mid_stream"), (flags.2, "histories_with_accessor_after_morph"), (flags.3, "histories_with_next_after_skip")] {
            if f {
                run.count(n, 1);
            }
        }
        if case.partial {
            run.count("partial_mode_histories", 1);
        }
        run.sample(|| json!({"mode": if case.bytes_mode { "bytes" } else { "str" }, "start_definition": if case.start_b { "B" } else { "A" }, "partial": case.partial, "input": show(&case.input), "ops": format!("{:?}", case.ops)}));
    }
    Ok(())
}

fn ops_json(ops: &[Op]) -> Vec<serde_json::Value> {
    ops.iter()
        .map(|o| match o {
            Op::Next => json!("next"),
            Op::Bump(k) => json!({"bump": k}),
            Op::CloneCheck => json!("clone_check"),
            Op::CloneSwitch => json!("clone_switch"),
            Op::CloneFrom(k) => json!({"clone_from": k}),
            Op::Morph => json!("morph"),
            Op::Spanned => json!("spanned"),
            Op::Accessors => json!("accessors"),
            Op::Extras(k) => json!({"extras": k}),
        })
        .collect()
}

fn ops_from(v: &serde_json::Value) -> Vec<Op> {
    v.as_array()
        .map(|a| {
            a.iter()
                .map(|o| match o {
                    serde_json::Value::String(s) => match s.as_str() {
                        "next" => Op::Next,
                        "clone_check" => Op::CloneCheck,
                        "clone_switch" => Op::CloneSwitch,
                        "morph" => Op::Morph,
                        "spanned" => Op::Spanned,
                        _ => Op::Accessors,
                    },
                    o if o.get("bump").is_some() => Op::Bump(o["bump"].as_u64().unwrap() as u16),
                    o if o.get("clone_from").is_some() => Op::CloneFrom(o["clone_from"].as_u64().unwrap() as u8),
                    o => Op::Extras(o["extras"].as_u64().unwrap_or(0) as u8),
                })
                .collect()
        })
        .unwrap_or_default()
}

pub fn main(args: &Args, cfg: &str) -> i32 {
    let mut run = Run::new(
        "C14",
        &args.tier,
        args.seed,
        "proptest histories: vec(op, 0..30) over {next, bump(i-th legal amount, constructed from the model), clone (both copies run to exhaustion / continue with the clone), morph to the other definition of the pair and back, spanned, accessors, extras mutation} x inputs built from token/skip/multi-byte atoms x {str pair, bytes pair} x {ordinary, partial}; oracle: reference model (start, end, mode, definition, extras) with next() expected from a fresh lexer of the same definition and mode over source[end..]; after every op span/slice/remainder/source/extras are compared; evaluation = one op; non-trivial = distinct histories containing morph-after-bump, clone mid-stream, accessor right after morph, or next() after skipped bytes",
    );
    run.assumptions = vec![format!("build configuration {cfg}"), "fixed hand-written definition pairs (tier A)".into()];
    if let Some(path) = &args.replay {
        let v: serde_json::Value = serde_json::from_str(&std::fs::read_to_string(path).unwrap()).unwrap();
        let case = Case {
            bytes_mode: v["bytes_mode"].as_bool().unwrap(),
            start_b: v["start_b"].as_bool().unwrap(),
            partial: v["partial"].as_bool().unwrap(),
            input: unhex(v["input_hex"].as_str().unwrap()),
            ops: ops_from(&v["ops"]),
        };
        return match interpret(&case, None) {
            Ok(()) => {
                println!("replay: no violation of C14 in {cfg}");
                0
            }
            Err(m) => {
                println!("replay[{cfg}]: {m}");
                println!("VIOLATION property=C14 replay={}", path.display());
                1
            }
        };
    }
    let cases = if args.cases > 0 { args.cases } else if args.thorough() { 400000 } else { 40000 };
    let res = drive(&case_strategy(), cases, args.seed ^ 0xC14, 2000, &mut run, |c, run| interpret(c, Some(run)));
    let code = match res {
        DriveResult::Pass => 0,
        DriveResult::Fail(case) => {
            let msg = interpret(&case, None).err().unwrap_or_default();
            run.violations = 1;
            report_violation(
                "C14",
                &args.replay_dir,
                &json!({"property": "C14", "tier": "A", "config": cfg, "bytes_mode": case.bytes_mode, "start_b": case.start_b, "partial": case.partial, "input_hex": hex(&case.input), "input": show(&case.input), "ops": ops_json(&case.ops), "findings": [{"property": "C14", "what": msg}]}),
            );
            1
        }
        DriveResult::Abort(m) => {
            eprintln!("aborted: {m}");
            2
        }
    };
    run.write_evidence(&args.evidence);
    code
}
