//! C15: bump advances to a valid position or panics without corrupting the lexer. Arithmetic model
//! with checked addition; after either outcome the span predicate (not UB) decides whether the
//! accessors may be called.

use std::panic::{catch_unwind, AssertUnwindSafe};

use logos::Lexer;
use proptest::collection::vec;
use proptest::prelude::*;
use serde_json::json;

use model::run::{drive, report_violation, Args, DriveResult, Run};
use model::{fnv, hex, show, unhex};

use crate::defs::*;

#[derive(Clone, Debug)]
pub enum N {
    /// exact remaining + delta (delta in -2..=2)
    Remaining(i8),
    /// i-th char boundary after end + delta
    Boundary(u8, i8),
    /// usize::MAX - k
    Max(u8),
    /// usize::MAX - end + j  (wraps onto position j-1 .. when added to end)
    Wrap(u8),
    Small(u8),
    /// the length a UTF-8 lead byte at the current end announces (1 for any other byte) + delta: meaningful for str
    /// sources, and exactly what must *not* matter for byte sources
    Announced(i8),
}

fn n_strategy() -> BoxedStrategy<N> {
    prop_oneof![
        3 => (-2i8..=2).prop_map(N::Remaining),
        3 => (any::<u8>(), -1i8..=1).prop_map(|(i, d)| N::Boundary(i, d)),
        2 => (0u8..4).prop_map(N::Max),
        3 => (0u8..12).prop_map(N::Wrap),
        2 => (0u8..6).prop_map(N::Small),
        2 => (-1i8..=1).prop_map(N::Announced),
    ]
    .boxed()
}

#[derive(Clone, Debug)]
pub struct Case {
    /// 0 derived lexer on str / [u8]; 1 String, 2 Box<str>, 3 Rc<str> / Vec<u8> through hand-written Logos impls
    pub source_kind: u8,
    pub bytes_mode: bool,
    pub input: Vec<u8>,
    pub nexts: u8,
    pub bumps: Vec<N>,
    /// lexer created with new_partial (bump must behave the same)
    pub partial: bool,
}

const STR_ATOMS: &[&str] = &["a", "é", "日本", "12", " ", "+", "😀", "\"x\"", "ß", "\n"];
const BYTE_ATOMS: &[&[u8]] = &[
    b"a", b"12", b" ", b"\x00", b"\x80\xff", b"<a>", b"\xc3\xa9", b"\xc3", b"\xe2", b"\xe2\x82", b"\xf0", b"\xf0\x9f", b"\xf4\x8f\xbf", b"\xc2", b"\xdf\xe0", b"\xef\xbf",
];

/// chars whose encodings hold the extreme lead and continuation byte values (0x80 / 0xBF in every position)
pub const EDGE_CHARS: &[char] = &[
    '\u{80}', '\u{bf}', '\u{ff}', '\u{7ff}', '\u{800}', '\u{fff}', '\u{d7ff}', '\u{e000}', '\u{feff}', '\u{fffd}', '\u{ffff}', '\u{10000}',
    '\u{3ffff}', '\u{10ffff}', '\u{2028}', '\u{a0}',
];

pub fn edge_char() -> BoxedStrategy<char> {
    prop_oneof![2 => proptest::sample::select(EDGE_CHARS), 1 => any::<char>()].boxed()
}

pub fn case_strategy() -> BoxedStrategy<Case> {
    (0u8..4, any::<bool>(), vec((any::<u8>(), proptest::option::weighted(0.3, edge_char())), 0..8), 0u8..5, vec(n_strategy(), 1..5), prop::bool::weighted(0.3))
        .prop_map(|(source_kind, bytes_mode, atoms, nexts, bumps, partial)| {
            let mut input = Vec::new();
            for (a, c) in atoms {
                if bytes_mode {
                    if let Some(c) = c {
                        // an encoded char cut short by 0..3 bytes: byte sources hold lead bytes without their continuation
                        let mut buf = [0; 4];
                        let enc = c.encode_utf8(&mut buf).as_bytes();
                        let keep = enc.len() - (a as usize % enc.len());
                        input.extend_from_slice(&enc[..keep]);
                    } else {
                        input.extend_from_slice(BYTE_ATOMS[(a as usize * BYTE_ATOMS.len()) >> 8]);
                    }
                } else if let Some(c) = c {
                    input.extend_from_slice(c.encode_utf8(&mut [0; 4]).as_bytes());
                } else {
                    input.extend_from_slice(STR_ATOMS[(a as usize * STR_ATOMS.len()) >> 8].as_bytes());
                }
            }
            Case { source_kind, bytes_mode, input, nexts, bumps, partial }
        })
        .boxed()
}

fn resolve(n: &N, src: &[u8], is_str: bool, end: usize) -> usize {
    let len = src.len();
    match n {
        N::Remaining(d) => ((len - end) as i64 + *d as i64).max(0) as usize,
        N::Boundary(i, d) => {
            let bounds: Vec<usize> = (end..=len).filter(|&p| !is_str || std::str::from_utf8(src).unwrap().is_char_boundary(p)).collect();
            let b = bounds[(*i as usize * bounds.len()) >> 8];
            ((b - end) as i64 + *d as i64).max(0) as usize
        }
        N::Max(k) => usize::MAX - *k as usize,
        N::Wrap(j) => (usize::MAX - end).wrapping_add(*j as usize),
        N::Small(k) => *k as usize,
        N::Announced(d) => {
            let w = match src.get(end) {
                Some(0xC2..=0xDF) => 2,
                Some(0xE0..=0xEF) => 3,
                Some(0xF0..=0xF4) => 4,
                _ => 1,
            };
            (w as i64 + *d as i64).max(0) as usize
        }
    }
}

trait L {
    fn next_(&mut self);
    fn bump_(&mut self, n: usize);
    fn span_(&self) -> std::ops::Range<usize>;
    fn slice_(&self) -> Vec<u8>;
    fn remainder_(&self) -> Vec<u8>;
}
macro_rules! impl_l {
    ($t:ty) => {
        impl<'s> L for Lexer<'s, $t> {
            fn next_(&mut self) {
                let _ = Iterator::next(self);
            }
            fn bump_(&mut self, n: usize) {
                self.bump(n)
            }
            fn span_(&self) -> std::ops::Range<usize> {
                self.span()
            }
            fn slice_(&self) -> Vec<u8> {
                AsRef::<[u8]>::as_ref(&self.slice()).to_vec()
            }
            fn remainder_(&self) -> Vec<u8> {
                AsRef::<[u8]>::as_ref(&self.remainder()).to_vec()
            }
        }
    };
}
impl_l!(StrA);
impl_l!(BytesA);
impl_l!(ManualString);
impl_l!(ManualBoxStr);
impl_l!(ManualRcStr);
impl_l!(ManualVec);

pub fn interpret(case: &Case, run: Option<&mut Run>) -> Result<(), String> {
    let src: &[u8] = &case.input;
    let is_str = !case.bytes_mode;
    let text = if is_str { std::str::from_utf8(src).unwrap() } else { "" };
    let owned_string: String = text.to_string();
    let owned_box: Box<str> = text.into();
    let owned_rc: std::rc::Rc<str> = text.into();
    let owned_vec: Vec<u8> = src.to_vec();
    let mut lex: Box<dyn L + '_> = match (case.source_kind, is_str, case.partial) {
        (0, true, false) => Box::new(Lexer::<StrA>::new(text)),
        (0, false, false) => Box::new(Lexer::<BytesA>::new(src)),
        (1, true, false) => Box::new(Lexer::<ManualString>::new(&owned_string)),
        (2, true, false) => Box::new(Lexer::<ManualBoxStr>::new(&owned_box)),
        (3, true, false) => Box::new(Lexer::<ManualRcStr>::new(&owned_rc)),
        (_, _, false) => Box::new(Lexer::<ManualVec>::new(&owned_vec)),
        (0, true, true) => Box::new(Lexer::<StrA>::new_partial(text)),
        (0, false, true) => Box::new(Lexer::<BytesA>::new_partial(src)),
        (1, true, true) => Box::new(Lexer::<ManualString>::new_partial(&owned_string)),
        (2, true, true) => Box::new(Lexer::<ManualBoxStr>::new_partial(&owned_box)),
        (3, true, true) => Box::new(Lexer::<ManualRcStr>::new_partial(&owned_rc)),
        (_, _, true) => Box::new(Lexer::<ManualVec>::new_partial(&owned_vec)),
    };
    for _ in 0..case.nexts {
        // the hand-written Logos impls of the Deref sources advance with in-range bumps: a panic here is a bump that
        // rejected a valid position
        if catch_unwind(AssertUnwindSafe(|| lex.next_())).is_err() {
            return Err(format!("next() panicked on a source of {} bytes (an in-range bump to a valid position was rejected)", src.len()));
        }
    }
    let len = src.len();
    let boundary = |p: usize| p <= len && (!is_str || text.is_char_boundary(p));
    let mut classes = (false, false, false);
    for nspec in &case.bumps {
        let before = lex.span_();
        let n = resolve(nspec, src, is_str, before.end);
        let expect_ok = before.end.checked_add(n).map(|e| boundary(e)).unwrap_or(false);
        if n > len - before.end {
            classes.0 = true;
        }
        if before.end.checked_add(n).map(|e| e <= len && !boundary(e)).unwrap_or(false) {
            classes.1 = true;
        }
        if before.end.checked_add(n).is_none() {
            classes.2 = true;
        }
        let r = catch_unwind(AssertUnwindSafe(|| lex.bump_(n)));
        let after = lex.span_();
        match (&r, expect_ok) {
            (Ok(()), false) => {
                return Err(format!("bump({n}) at span {before:?} on a source of {len} bytes returned normally (span now {after:?}); it must panic"));
            }
            (Err(_), true) => {
                return Err(format!("bump({n}) at span {before:?} on a source of {len} bytes panicked although {}+{n} is a valid position", before.end));
            }
            _ => {}
        }
        if r.is_ok() && after != (before.start..before.end + n) {
            return Err(format!("bump({n}) at span {before:?} gives span {after:?}"));
        }
        // in no case may safe code obtain a slice outside the source or with start > end
        if !(after.start <= after.end && after.end <= len && boundary(after.start) && boundary(after.end)) {
            return Err(format!(
                "after bump({n}) {} at span {before:?} the lexer reports span {after:?} on a source of {len} bytes: slice()/remainder() would be out of range",
                if r.is_ok() { "returned" } else { "panicked" }
            ));
        }
        if lex.slice_() != src[after.clone()] {
            return Err(format!("after bump({n}): slice() differs from source[{after:?}]"));
        }
        if lex.remainder_() != src[after.end..] {
            return Err(format!("after bump({n}): remainder() differs from source[{}..]", after.end));
        }
        // the lexer stays usable
        if r.is_err() {
            if catch_unwind(AssertUnwindSafe(|| lex.next_())).is_err() {
                return Err(format!("after a caught bump panic next() panicked (span {:?}, source of {len} bytes)", lex.span_()));
            }
            let s2 = lex.span_();
            if !(s2.start <= s2.end && s2.end <= len) {
                return Err(format!("after a caught bump panic next() leaves span {s2:?}"));
            }
        }
    }
    if let Some(run) = run {
        run.eval(case.bumps.len() as u64);
        if classes.0 || classes.1 || classes.2 {
            let mut k = case.input.clone();
            k.extend(format!("{:?}{}", case.bumps, case.nexts).bytes());
            run.nontrivial(fnv(&k));
        }
        for (f, n) in [(classes.0, "bump_beyond_remaining"), (classes.1, "bump_landing_mid_char"), (classes.2, "bump_wrapping_usize")] {
            if f {
                run.count(n, 1);
            }
        }
        run.count(&format!("source_kind_{}", case.source_kind), 1);
        if case.partial {
            run.count("partial_lexers", 1);
        }
        run.sample(|| json!({"source_kind": case.source_kind, "partial": case.partial, "mode": if is_str { "str" } else { "bytes" }, "input": show(src), "nexts": case.nexts, "bumps": format!("{:?}", case.bumps)}));
    }
    Ok(())
}

fn n_json(n: &N) -> serde_json::Value {
    match n {
        N::Remaining(d) => json!({"remaining": d}),
        N::Boundary(i, d) => json!({"boundary": [i, d]}),
        N::Max(k) => json!({"max": k}),
        N::Wrap(j) => json!({"wrap": j}),
        N::Small(k) => json!({"small": k}),
        N::Announced(d) => json!({"announced": d}),
    }
}
fn n_from(v: &serde_json::Value) -> N {
    if let Some(d) = v.get("remaining") {
        N::Remaining(d.as_i64().unwrap() as i8)
    } else if let Some(a) = v.get("boundary") {
        N::Boundary(a[0].as_u64().unwrap() as u8, a[1].as_i64().unwrap() as i8)
    } else if let Some(k) = v.get("max") {
        N::Max(k.as_u64().unwrap() as u8)
    } else if let Some(j) = v.get("wrap") {
        N::Wrap(j.as_u64().unwrap() as u8)
    } else if let Some(d) = v.get("announced") {
        N::Announced(d.as_i64().unwrap() as i8)
    } else {
        N::Small(v["small"].as_u64().unwrap_or(0) as u8)
    }
}

pub fn main(args: &Args, cfg: &str) -> i32 {
    let mut run = Run::new(
        "C15",
        &args.tier,
        args.seed,
        "proptest cases: source (ordinary and partial lexers; str / [u8] with a derived lexer; String, Box<str>, Rc<str>, Vec<u8> through hand-written Logos impls over the Deref blanket Source impl; multi-byte chars) x k next() calls x 1-4 bump amounts from {remaining+-2, each char boundary +-1, usize::MAX-k, usize::MAX-end+j (wraps onto valid positions), small}; bump under catch_unwind; oracle: returns normally iff end.checked_add(n) is Some(e) with e <= len on a char boundary, else panics; afterwards start <= end <= len on boundaries (checked from span() before slice()/remainder() are called and compared), lexer usable after a caught panic; evaluation = one bump; non-trivial = distinct cases with n > remaining, n landing mid-char, or n wrapping",
    );
    run.assumptions = vec![format!("build configuration {cfg}")];
    std::panic::set_hook(Box::new(|_| {}));
    if let Some(path) = &args.replay {
        let v: serde_json::Value = serde_json::from_str(&std::fs::read_to_string(path).unwrap()).unwrap();
        let case = Case {
            source_kind: v["source_kind"].as_u64().unwrap_or(0) as u8,
            bytes_mode: v["bytes_mode"].as_bool().unwrap(),
            input: unhex(v["input_hex"].as_str().unwrap()),
            nexts: v["nexts"].as_u64().unwrap() as u8,
            bumps: v["bumps"].as_array().unwrap().iter().map(n_from).collect(),
            partial: v["partial"].as_bool().unwrap_or(false),
        };
        return match interpret(&case, None) {
            Ok(()) => {
                println!("replay: no violation of C15 in {cfg}");
                0
            }
            Err(m) => {
                println!("replay[{cfg}]: {m}");
                println!("VIOLATION property=C15 replay={}", path.display());
                1
            }
        };
    }
    let cases = if args.cases > 0 { args.cases } else if args.thorough() { 600000 } else { 60000 };
    let res = drive(&case_strategy(), cases, args.seed ^ 0xC15, 2000, &mut run, |c, run| interpret(c, Some(run)));
    let code = match res {
        DriveResult::Pass => 0,
        DriveResult::Fail(case) => {
            let msg = interpret(&case, None).err().unwrap_or_default();
            run.violations = 1;
            report_violation(
                "C15",
                &args.replay_dir,
                &json!({"property": "C15", "tier": "A", "config": cfg, "source_kind": case.source_kind, "bytes_mode": case.bytes_mode, "input_hex": hex(&case.input), "input": show(&case.input), "nexts": case.nexts, "partial": case.partial, "bumps": case.bumps.iter().map(n_json).collect::<Vec<_>>(), "findings": [{"property": "C15", "what": msg}]}),
            );
            1
        }
        DriveResult::Abort(m) => {
            eprintln!("aborted: {m}");
            2
        }
    };
    run.write_evidence(&args.evidence);
    code
}
