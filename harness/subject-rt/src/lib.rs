//! Runtime linked into the generated subject crates: observation of real derived lexers.

use std::panic::{catch_unwind, AssertUnwindSafe};

use logos::{Lexer, Logos, Source};
pub use model::Item;
use serde::{Deserialize, Serialize};

pub mod drivers;

/// Extras used by every generated subject enum: skip / callback logging.
#[derive(Clone, Debug, Default, PartialEq, Eq)]
pub struct Log {
    pub skips: Vec<(usize, usize)>,
    /// (pattern id, span start, span end, fnv of slice bytes, bumped bytes)
    pub cbs: Vec<(u32, usize, usize, u64, usize)>,
    /// error callback invocations (span start, span end)
    pub errs: Vec<(usize, usize)>,
}

/// Token types of subjects report a small integer id.
pub trait Tok: Copy {
    fn id(&self) -> usize;
    /// payload of value variants (callbacks family)
    fn val(&self) -> u64 {
        0
    }
}

/// Custom error type of the callbacks family: 0 = Default, 1_000_000 + v = converted from a
/// callback's `Ecb(v)`, 2_000_000 + .. = produced by the error callback.
#[derive(Clone, Debug, Default, PartialEq, Eq)]
pub struct E(pub u64);
#[derive(Clone, Debug, PartialEq, Eq)]
pub struct Ecb(pub u64);
impl From<Ecb> for E {
    fn from(e: Ecb) -> E {
        E(1_000_000 + e.0)
    }
}
impl ErrCode for E {
    fn code(&self) -> u64 {
        self.0
    }
}

/// payload of a value variant that holds the matched slice itself (no callback)
pub fn slice_val<S: AsRef<[u8]> + ?Sized>(s: &S) -> u64 {
    model::set::cb_value(s.as_ref())
}

/// Body shared by all generated callbacks: log the invocation (pattern, span, slice), bump `bump`
/// whole chars (bytes in byte mode) of the remainder, return the decision index and the value.
pub fn cb_common<'s, T>(lex: &mut Lexer<'s, T>, pat: u32, salt: u32, bump: u8, nopts: u8) -> (u8, u64)
where
    T: Logos<'s, Extras = Log>,
    T::Source: Src,
    <T::Source as Source>::Slice<'s>: AsRef<[u8]>,
{
    let sp = lex.span();
    let sl: Vec<u8> = lex.slice().as_ref().to_vec();
    let n = {
        let rem = lex.remainder();
        model::set::bump_bytes(rem.as_ref(), bump, <T::Source as Src>::IS_STR)
    };
    lex.extras.cbs.push((pat, sp.start, sp.end, model::fnv(&sl), n));
    if n > 0 {
        lex.bump(n);
    }
    ((model::set::decide(salt, &sl) % nopts as u64) as u8, model::set::cb_value(&sl))
}

/// Error types of subjects report a code (0 = Default).
pub trait ErrCode {
    fn code(&self) -> u64;
}
impl ErrCode for () {
    fn code(&self) -> u64 {
        0
    }
}

/// Source helper: boundary predicate independent of logos.
pub trait Src {
    const IS_STR: bool;
    fn bytes(&self) -> &[u8];
    fn boundary(&self, i: usize) -> bool;
    fn from_bytes(b: &[u8]) -> &Self;
}
impl Src for str {
    const IS_STR: bool = true;
    fn bytes(&self) -> &[u8] {
        self.as_bytes()
    }
    fn boundary(&self, i: usize) -> bool {
        self.is_char_boundary(i)
    }
    fn from_bytes(b: &[u8]) -> &Self {
        std::str::from_utf8(b).expect("harness: str subjects only get valid UTF-8")
    }
}
impl Src for [u8] {
    const IS_STR: bool = false;
    fn bytes(&self) -> &[u8] {
        self
    }
    fn boundary(&self, i: usize) -> bool {
        i <= self.len()
    }
    fn from_bytes(b: &[u8]) -> &Self {
        b
    }
}

/// Everything observed from one run of a lexer over one input.
#[derive(Clone, Debug, Default, PartialEq, Eq, Serialize, Deserialize)]
pub struct Obs {
    pub items: Vec<Item>,
    /// error codes of Err items, in order
    pub err_codes: Vec<u64>,
    /// payloads of Ok items, in order
    #[serde(default)]
    pub vals: Vec<u64>,
    pub ended: bool,
    pub none_again: bool,
    pub final_span: (usize, usize),
    pub skips: Vec<(usize, usize)>,
    pub cbs: Vec<(u32, usize, usize, u64, usize)>,
    pub errs: Vec<(usize, usize)>,
    /// anomalies seen by the observer itself (span not on boundary, slice mismatch, panic ...)
    pub anomalies: Vec<String>,
    /// item counts (always filled)
    #[serde(default)]
    pub n_ok: usize,
    #[serde(default)]
    pub n_err: usize,
    /// read trace: (attempt start | usize::MAX marker) encoded as (kind, a, b)
    #[serde(default, skip_serializing_if = "Vec::is_empty")]
    pub trace: Vec<(u8, usize, usize)>,
}

#[derive(Clone, Copy, Debug, Default)]
pub struct Mode {
    pub partial: bool,
    pub trace: bool,
    /// stop after this many next() calls (0 = until None, bounded by 2*len+4)
    pub max_items: usize,
    /// only count items (long inputs): nothing is stored, accessors are not observed
    pub count_only: bool,
}

fn observe_accessors<'s, T>(lex: &Lexer<'s, T>, src: &'s T::Source, anomalies: &mut Vec<String>)
where
    T: Logos<'s>,
    T::Source: Src,
    <T::Source as Source>::Slice<'s>: AsRef<[u8]>,
{
    let span = lex.span();
    let len = src.bytes().len();
    // decide from the span alone whether the accessors may be called (C04 / C15 style predicate)
    if span.start > span.end || span.end > len {
        anomalies.push(format!("span {span:?} out of order or out of range (len {len})"));
        return;
    }
    if !src.boundary(span.start) || !src.boundary(span.end) {
        anomalies.push(format!("span {span:?} not on char boundaries"));
        return;
    }
    let sl = lex.slice();
    if sl.as_ref() != &src.bytes()[span.clone()] {
        anomalies.push(format!("slice() differs from source[{span:?}]"));
    }
    let rem = lex.remainder();
    if rem.as_ref() != &src.bytes()[span.end..] {
        anomalies.push(format!("remainder() differs from source[{}..]", span.end));
    }
}

/// Lex `src` with the derived lexer `T`, observing everything.
pub fn lex_generic<'s, T>(src: &'s T::Source, mode: Mode) -> Obs
where
    T: Logos<'s, Extras = Log> + Tok,
    T::Error: ErrCode,
    T::Source: Src,
    <T::Source as Source>::Slice<'s>: AsRef<[u8]>,
{
    let mut obs = Obs::default();
    let len = src.bytes().len();
    let mut lex = if mode.partial { Lexer::<T>::new_partial(src) } else { Lexer::<T>::new(src) };
    if mode.trace {
        logos::verif::arm();
    }
    let bound = if mode.max_items > 0 { mode.max_items } else { 2 * len + 4 };
    for _ in 0..bound {
        match lex.next() {
            None => {
                obs.ended = true;
                break;
            }
            Some(r) if mode.count_only => {
                if r.is_ok() {
                    obs.n_ok += 1;
                } else {
                    obs.n_err += 1;
                }
            }
            Some(r) => {
                let span = lex.span();
                if r.is_ok() {
                    obs.n_ok += 1;
                } else {
                    obs.n_err += 1;
                }
                match r {
                    Ok(t) => {
                        obs.items.push(Item { kind: Some(t.id()), start: span.start, end: span.end });
                        obs.vals.push(t.val());
                    }
                    Err(e) => {
                        obs.items.push(Item { kind: None, start: span.start, end: span.end });
                        obs.err_codes.push(e.code());
                    }
                }
                observe_accessors(&lex, src, &mut obs.anomalies);
            }
        }
    }
    if obs.ended {
        let sp = lex.span();
        obs.final_span = (sp.start, sp.end);
        if !mode.count_only {
            observe_accessors(&lex, src, &mut obs.anomalies);
        }
        if !mode.partial {
            obs.none_again = lex.next().is_none() && lex.next().is_none();
        } else {
            obs.none_again = true;
        }
    }
    // spanned() must yield exactly the (item, span) pairs of manual iteration (C14), on char boundaries (C04)
    if obs.ended && !mode.partial && !mode.count_only && !mode.trace && mode.max_items == 0 {
        let pairs: Vec<(Option<usize>, usize, usize)> = Lexer::<T>::new(src).spanned().take(bound).map(|(r, sp)| (r.ok().map(|t| t.id()), sp.start, sp.end)).collect();
        let manual: Vec<(Option<usize>, usize, usize)> = obs.items.iter().map(|i| (i.kind, i.start, i.end)).collect();
        if pairs != manual {
            obs.anomalies.push(format!("spanned() pairs {pairs:?} differ from manual iteration {manual:?}"));
        }
    }
    if mode.trace {
        for e in logos::verif::take() {
            match e {
                logos::verif::Event::Attempt(a) => obs.trace.push((0, a, 0)),
                logos::verif::Event::Read { offset, size } => obs.trace.push((1, offset, size)),
            }
        }
    }
    obs.skips = std::mem::take(&mut lex.extras.skips);
    obs.cbs = std::mem::take(&mut lex.extras.cbs);
    obs.errs = std::mem::take(&mut lex.extras.errs);
    obs
}

/// A generated subject: one module with one or more derived enums over the same patterns.
pub trait Subject: Sync {
    /// index into defs.json
    fn index(&self) -> usize;
    /// `which` selects the enum of the module (0 = main definition, 1.. = twins)
    fn lex(&self, which: u8, src: &[u8], mode: Mode) -> Obs;
}

/// Progress bookkeeping for the hang watchdog (see drivers::start_watchdog).
pub static PROGRESS: std::sync::atomic::AtomicU64 = std::sync::atomic::AtomicU64::new(0);
pub static CURRENT: std::sync::Mutex<Option<(usize, u8, Vec<u8>, bool)>> = std::sync::Mutex::new(None);

/// Run a subject catching panics (reported as an anomaly; a panic message is deterministic).
pub fn lex_catch(s: &dyn Subject, which: u8, src: &[u8], mode: Mode) -> Obs {
    PROGRESS.fetch_add(1, std::sync::atomic::Ordering::Relaxed);
    if let Ok(mut c) = CURRENT.lock() {
        match c.as_mut() {
            Some(cur) => {
                cur.0 = s.index();
                cur.1 = which;
                cur.2.clear();
                cur.2.extend_from_slice(src);
                cur.3 = mode.partial;
            }
            None => *c = Some((s.index(), which, src.to_vec(), mode.partial)),
        }
    }
    match catch_unwind(AssertUnwindSafe(|| s.lex(which, src, mode))) {
        Ok(o) => o,
        Err(p) => {
            if mode.trace {
                let _ = logos::verif::take();
            }
            let msg = if let Some(s) = p.downcast_ref::<String>() {
                s.clone()
            } else if let Some(s) = p.downcast_ref::<&str>() {
                s.to_string()
            } else {
                "panic".into()
            };
            Obs { anomalies: vec![format!("panic: {msg}")], ..Obs::default() }
        }
    }
}
