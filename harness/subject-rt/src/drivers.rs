//! Tier X drivers: run inside the compiled subject binary (one per feature configuration).

use std::io::Write;

use serde_json::{json, Value};

use model::engine::{fixed_inputs, run_inputs, shrink_input};
use model::judge::{judge, tiling, Finding};
use model::prep::{prepare, Prepared};
use model::run::{report_violation, Args, Run};
use model::set::{SubjectDef, SubjectSet};
use model::{fnv, hex, show, unhex, Item};

use crate::{lex_catch, Mode, Obs, Subject};

#[derive(Clone, Copy, Debug)]
pub struct BuildCfg {
    pub forbid_unsafe: bool,
    pub state_machine: bool,
    pub release: bool,
}

impl BuildCfg {
    pub fn name(&self) -> String {
        format!(
            "{}{}{}",
            if self.state_machine { "sm" } else { "tc" },
            if self.forbid_unsafe { "-safe" } else { "-unsafe" },
            if self.release { "-rel" } else { "" }
        )
    }
}

fn fnd(property: &'static str, at: usize, what: String) -> Finding {
    Finding { property, at, what }
}

/// Properties judged from observer anomalies.
fn anomaly_findings(obs: &Obs, utf8: bool) -> Vec<Finding> {
    let mut f = Vec::new();
    for a in &obs.anomalies {
        if a.starts_with("panic") {
            f.push(fnd("C05", 0, format!("lexer panicked: {a}")));
        } else if a.contains("out of range") {
            // slice() / remainder() on this span would form a slice outside the source (not called by the harness)
            f.push(fnd("C05", 0, format!("{a}: slice() and remainder() would form a slice with out-of-range bounds")));
        } else if a.contains("char boundaries") || (utf8 && (a.contains("slice()") || a.contains("remainder()"))) {
            f.push(fnd("C04", 0, a.clone()));
            if a.contains("char boundaries") {
                // the same observation under C05: slice() / remainder() on this span panic on the boundary check of the
                // forbid_unsafe build and form an invalid str in the default build (not called by the harness)
                f.push(fnd("C05", 0, format!("{a}: the forbid_unsafe build would panic on its boundary check in slice() / remainder(), the default build would hand out an invalid str")));
            }
        } else {
            f.push(fnd("C14", 0, a.clone()));
        }
    }
    f
}

fn one_shot(s: &dyn Subject, input: &[u8]) -> Obs {
    lex_catch(s, 0, input, Mode::default())
}

fn shifted(items: &[Item], by: usize) -> Vec<Item> {
    items.iter().map(|i| Item { kind: i.kind, start: i.start + by, end: i.end + by }).collect()
}

/// C07 relations (a) soundness, (b) position, (d) chunked history - all against the same build.
fn partial_findings(s: &dyn Subject, p: &Prepared, utf8: bool, input: &[u8], full: &Obs, run: Option<&mut Run>, key: u64) -> Vec<Finding> {
    let mut f = Vec::new();
    let len = input.len();
    let conts: [&[u8]; 6] = [b"", b"a", b" ", b"\n", b"0", "é".as_bytes()];
    let mut nontrivial = 0u64;
    let mut evals = 0u64;
    let is_b = |k: usize| !utf8 || k == len || (input[k] & 0xC0) != 0x80;
    for k in 0..=len {
        if !is_b(k) {
            continue;
        }
        let pre = &input[..k];
        let part = lex_catch(s, 0, pre, Mode { partial: true, ..Mode::default() });
        evals += 1;
        if !part.anomalies.is_empty() {
            f.push(fnd("C07", k, format!("partial lexer over {} anomalies {:?}", show(pre), part.anomalies)));
            break;
        }
        if !part.ended {
            f.push(fnd("C07", k, format!("partial lexer over {} did not return None", show(pre))));
            break;
        }
        let n = part.items.len();
        // (a) leading run of the one-shot items of S
        if full.items.len() < n || full.items[..n] != part.items[..] {
            f.push(fnd("C07", k, format!("partial lexer over {} (split {k} of {}) committed {:?} which is not a leading run of the one-shot items {:?}", show(pre), show(input), part.items, full.items)));
            break;
        }
        // (a') and of every generated alternative continuation
        for u in conts.iter() {
            let mut alt = pre.to_vec();
            alt.extend_from_slice(u);
            let o = one_shot(s, &alt);
            evals += 1;
            if o.items.len() < n || o.items[..n] != part.items[..] {
                f.push(fnd("C07", k, format!("partial lexer over {} committed {:?} but the continuation {} lexes one-shot to {:?}", show(pre), part.items, show(&alt), o.items)));
                return f;
            }
        }
        // (c) reference determinedness: a yielded item must be determined by the buffer, and at None the
        // pending attempt must really depend on more input (one char of slack with look-around)
        for it in &part.items {
            if p.reflex.wait(pre, it.start, k, &p.prio) {
                f.push(fnd("C07", k, format!("partial lexer over {} committed {:?} although the outcome of the attempt at {} still depends on more input (reference)", show(pre), it, it.start)));
                return f;
            }
        }
        {
            let at = part.final_span.1;
            if at <= k && part.final_span.0 == at && !p.reflex.wait(pre, at, k, &p.prio) {
                // determined by the prefix: must be yielded now, or with look-around one char later
                let mut excused = false;
                if p.reflex.has_lookaround() && k < len {
                    let mut k2 = k + 1;
                    while utf8 && k2 < len && (input[k2] & 0xC0) == 0x80 {
                        k2 += 1;
                    }
                    let part2 = lex_catch(s, 0, &input[..k2], Mode { partial: true, ..Mode::default() });
                    evals += 1;
                    // one char later the determined item (or skipped region) must have been committed
                    excused = part2.items.len() > n || part2.final_span.1 > at;
                }
                if !excused && p.reflex.has_lookaround() && k == len {
                    excused = true; // cannot extend the generated input; covered by other inputs
                }
                if !excused {
                    f.push(fnd("C07", k, format!("partial lexer over {} (split {k}) returned None at {at} although the next item is determined by the prefix (no continuation can change it)", show(pre))));
                    return f;
                }
            }
        }
        // (b) position at None
        let (ps, pe) = part.final_span;
        if ps != pe || pe > k {
            f.push(fnd("C07", k, format!("partial lexer over {} reports span {ps}..{pe} at None (must be empty, inside the prefix)", show(pre))));
            break;
        }
        let p = pe;
        let rest = one_shot(s, &input[p..]);
        evals += 1;
        if shifted(&rest.items, p) != full.items[n..] {
            f.push(fnd("C07", k, format!("after partial lexing of {} stopped at {p}, lexing the rest of {} from {p} gives {:?}, expected the remaining one-shot items {:?}", show(pre), show(input), shifted(&rest.items, p), &full.items[n..])));
            break;
        }
        // non-trivial: split strictly inside an item or skip of the one-shot run, or at an end that could extend (stopped before k)
        let inside = full.items.iter().any(|i| i.start < k && k < i.end) || full.skips.iter().any(|&(a, b)| a < k && k < b);
        if inside || p < k {
            nontrivial += 1;
        }
    }
    // (d) chunked history (book loop): schedule of chunk sizes derived from the input hash
    if f.is_empty() && len > 0 {
        let sizes = [1usize, 2, 7, 8, 9, 3];
        let mut h = fnv(input) as usize;
        let mut pos = 0usize;
        let mut avail = 0usize;
        let mut got: Vec<Item> = Vec::new();
        let mut guard = 0;
        while avail < len && guard < 4 * len + 8 {
            guard += 1;
            avail = (avail + sizes[h % sizes.len()]).min(len);
            h = h / 6 + 0x9e37;
            while utf8 && avail < len && (input[avail] & 0xC0) == 0x80 {
                avail += 1;
            }
            let part = lex_catch(s, 0, &input[pos..avail], Mode { partial: true, ..Mode::default() });
            evals += 1;
            got.extend(shifted(&part.items, pos));
            pos += part.final_span.1;
        }
        let rest = one_shot(s, &input[pos..]);
        got.extend(shifted(&rest.items, pos));
        if got != full.items {
            f.push(fnd("C07", 0, format!("chunked partial lexing of {} gives {:?}, one-shot gives {:?}", show(input), got, full.items)));
        }
    }
    if let Some(run) = run {
        run.eval(evals);
        for i in 0..nontrivial {
            run.nontrivial(key ^ (i + 1).wrapping_mul(0x9E3779B97F4A7C15));
        }
    }
    f
}

/// C07 on the callbacks family (callbacks x partial lexing): every callback decides from the matched text alone, so a partial
/// lexer has to commit exactly the one-shot items of the same build - results, payloads, error codes and callback
/// invocations included. A callback that bumps takes its chars from `remainder()`, which a partial buffer cuts short;
/// items whose match ends within 8 bytes (two chars) of the split are therefore not compared in definitions with bumps.
fn partial_cb_findings(s: &dyn Subject, sd: &SubjectDef, utf8: bool, input: &[u8], full: &Obs, run: Option<&mut Run>, key: u64) -> Vec<Finding> {
    let mut f = Vec::new();
    let len = input.len();
    let has_bump = sd.def.leaves().iter().any(|(p, _)| p.callback.as_ref().map(|c| c.bump > 0).unwrap_or(false));
    let paired = |o: &Obs| -> Vec<(Item, u64)> {
        let (mut vi, mut ei) = (0usize, 0usize);
        o.items
            .iter()
            .map(|it| {
                if it.kind.is_some() {
                    vi += 1;
                    (*it, o.vals.get(vi - 1).copied().unwrap_or(u64::MAX))
                } else {
                    ei += 1;
                    (*it, o.err_codes.get(ei - 1).copied().unwrap_or(u64::MAX))
                }
            })
            .collect()
    };
    let full_p = paired(full);
    let mut nontrivial = 0u64;
    let mut evals = 0u64;
    let is_b = |k: usize| !utf8 || k == len || (input[k] & 0xC0) != 0x80;
    for k in 0..=len {
        if !is_b(k) {
            continue;
        }
        let pre = &input[..k];
        let part = lex_catch(s, 0, pre, Mode { partial: true, ..Mode::default() });
        evals += 1;
        if !part.anomalies.is_empty() {
            f.push(fnd("C07", k, format!("partial lexer (callbacks) over {} anomalies {:?}", show(pre), part.anomalies)));
            break;
        }
        if !part.ended {
            f.push(fnd("C07", k, format!("partial lexer (callbacks) over {} did not return None", show(pre))));
            break;
        }
        let part_p = paired(&part);
        let n = part_p.len();
        // the first callback invocation that may have seen a truncated remainder (it may also have decided to skip):
        // nothing from its match on is compared
        let trunc_at = if has_bump { part.cbs.iter().find(|c| c.2 + 8 > k).map(|c| c.1) } else { None };
        let cut = match trunc_at {
            Some(t) => part_p.iter().position(|(it, _)| it.end > t).unwrap_or(n),
            None => n,
        };
        if full_p.len() < cut || full_p[..cut] != part_p[..cut] {
            f.push(fnd("C07", k, format!("partial lexer over {} (split {k} of {}) committed (item, payload / error code) {:?} which is not a leading run of the one-shot {:?}", show(pre), show(input), &part_p[..cut], full_p)));
            break;
        }
        // callback invocations: those of the compared items are a leading run of the one-shot log
        let upto = trunc_at.unwrap_or(k);
        let part_cbs: Vec<_> = part.cbs.iter().filter(|c| c.2 <= upto).collect();
        let agree = part_cbs.iter().zip(full.cbs.iter()).all(|(a, b)| *a == b);
        if !agree || part_cbs.len() > full.cbs.len() {
            f.push(fnd("C07", k, format!("partial lexer over {} (split {k}): callback invocations {:?} are not a leading run of the one-shot invocations {:?}", show(pre), part_cbs, full.cbs)));
            break;
        }
        if trunc_at.is_some() {
            continue;
        }
        // position at None, and the rest re-lexes to the remaining one-shot items (spans and results; payloads and error
        // codes may hold absolute positions)
        let (ps, pe) = part.final_span;
        if ps != pe || pe > k {
            f.push(fnd("C07", k, format!("partial lexer (callbacks) over {} reports span {ps}..{pe} at None (must be empty, inside the prefix)", show(pre))));
            break;
        }
        let rest = one_shot(s, &input[pe..]);
        evals += 1;
        if shifted(&rest.items, pe) != full.items[n..] {
            f.push(fnd("C07", k, format!("after partial lexing (callbacks) of {} stopped at {pe}, lexing the rest of {} from {pe} gives {:?}, expected the remaining one-shot items {:?}", show(pre), show(input), shifted(&rest.items, pe), &full.items[n..])));
            break;
        }
        let inside = full.items.iter().any(|i| i.start < k && k < i.end) || full.cbs.iter().any(|c| c.1 < k && k < c.2);
        if inside || pe < k {
            nontrivial += 1;
        }
    }
    // chunked history (book loop) for bump-free definitions
    if f.is_empty() && len > 0 && !has_bump {
        let sizes = [1usize, 3, 8, 2, 9, 5];
        let mut h = fnv(input) as usize;
        let mut pos = 0usize;
        let mut avail = 0usize;
        let mut got: Vec<Item> = Vec::new();
        let mut guard = 0;
        while avail < len && guard < 4 * len + 8 {
            guard += 1;
            avail = (avail + sizes[h % sizes.len()]).min(len);
            h = h / 6 + 0x9e37;
            while utf8 && avail < len && (input[avail] & 0xC0) == 0x80 {
                avail += 1;
            }
            let part = lex_catch(s, 0, &input[pos..avail], Mode { partial: true, ..Mode::default() });
            evals += 1;
            got.extend(shifted(&part.items, pos));
            pos += part.final_span.1;
        }
        let rest = one_shot(s, &input[pos..]);
        got.extend(shifted(&rest.items, pos));
        if got != full.items {
            f.push(fnd("C07", 0, format!("chunked partial lexing (callbacks) of {} gives {:?}, one-shot gives {:?}", show(input), got, full.items)));
        }
    }
    if let Some(run) = run {
        run.eval(evals);
        run.count("callback_family_inputs", 1);
        for i in 0..nontrivial {
            run.nontrivial(key ^ (i + 1).wrapping_mul(0x9E3779B97F4A7C15));
        }
    }
    f
}

/// C20: per attempt, read offsets never decrease, read count is linear in the bytes examined, each
/// attempt starts reading at its own start.
fn trace_findings(obs: &Obs, run: Option<&mut Run>, key: u64) -> Vec<Finding> {
    let mut f = Vec::new();
    let mut nontrivial = 0;
    let mut i = 0;
    let t = &obs.trace;
    while i < t.len() {
        if t[i].0 != 0 {
            f.push(fnd("C20", 0, format!("read before any attempt start: {:?}", t[i])));
            break;
        }
        let start = t[i].1;
        let mut j = i + 1;
        let mut last = start;
        let mut reads = 0usize;
        let mut maxend = start;
        while j < t.len() && t[j].0 == 1 {
            let (_, off, size) = t[j];
            if off < last {
                f.push(fnd("C20", start, format!("attempt at {start}: read at offset {off} after a read at {last} (offsets must not decrease)")));
                return f;
            }
            if reads == 0 && off != start {
                f.push(fnd("C20", start, format!("attempt at {start}: first read at {off}")));
                return f;
            }
            last = off;
            reads += 1;
            maxend = maxend.max(off.saturating_add(size));
            j += 1;
        }
        let examined = maxend - start;
        if reads > 4 * (examined + 1) + 16 {
            f.push(fnd("C20", start, format!("attempt at {start}: {reads} reads for {examined} bytes examined")));
            return f;
        }
        if examined >= 16 {
            nontrivial += 1;
        }
        i = j;
    }
    if let Some(run) = run {
        for k in 0..nontrivial.min(1000) {
            run.nontrivial(key ^ (k as u64 + 1).wrapping_mul(0xD1B54A32D192ED03));
        }
    }
    f
}

/// C12: str-mode lexer vs its bytes-mode twin on the same valid UTF-8 input.
fn twin_findings(s: &dyn Subject, input: &[u8], a: &Obs, run: Option<&mut Run>, key: u64) -> Vec<Finding> {
    let mut f = Vec::new();
    let b = lex_catch(s, 1, input, Mode::default());
    if let Some(p) = b.anomalies.iter().find(|x| x.starts_with("panic")) {
        f.push(fnd("C12", 0, format!("bytes-mode twin {p}")));
        return f;
    }
    let oks = |o: &Obs| -> Vec<Item> { o.items.iter().copied().filter(|i| i.kind.is_some()).collect() };
    if oks(a) != oks(&b) {
        f.push(fnd("C12", 0, format!("Ok tokens differ between str mode {:?} and utf8 = false {:?}", oks(a), oks(&b))));
        return f;
    }
    let errbytes = |o: &Obs| -> Vec<bool> {
        let mut v = vec![false; input.len()];
        for i in o.items.iter().filter(|i| i.kind.is_none()) {
            for x in i.start..i.end.min(input.len()) {
                v[x] = true;
            }
        }
        v
    };
    let (ea, eb) = (errbytes(a), errbytes(&b));
    if ea != eb {
        let at = ea.iter().zip(eb.iter()).position(|(x, y)| x != y).unwrap_or(0);
        f.push(fnd("C12", at, format!("bytes covered by errors differ at offset {at}: str mode items {:?}, utf8 = false items {:?}", a.items, b.items)));
    }
    if let Some(run) = run {
        let near = a.items.iter().filter(|i| i.kind.is_none()).any(|i| (i.start..i.end.min(input.len())).any(|x| input[x] >= 0x80) || (i.end < input.len() && input[i.end] >= 0x80) || (i.start > 0 && input[i.start - 1] >= 0x80));
        if near {
            run.nontrivial(key);
        }
    }
    f
}

/// C13: model of the callback protocol driven by the callback-free twin T0.
fn callback_findings(s: &dyn Subject, sd: &SubjectDef, input: &[u8], obs: &Obs, run: Option<&mut Run>, key: u64) -> Vec<Finding> {
    use model::set::{bump_bytes, cb_value, decide, ret_is_token, ret_options};
    let def = &sd.def;
    let leaves = def.leaves();
    let nskips = def.skips.len();
    let first_unit = (0..def.variants.len()).find(|&vi| !sd.has_value.get(nskips + vi).copied().unwrap_or(false));
    let len = input.len();
    let mut pos = 0usize;
    let mut items: Vec<Item> = Vec::new();
    let mut vals: Vec<u64> = Vec::new();
    let mut codes: Vec<u64> = Vec::new();
    let mut cbs: Vec<(u32, usize, usize, u64, usize)> = Vec::new();
    let mut errs: Vec<(usize, usize)> = Vec::new();
    let mut flags = (false, false, false);
    let mut guard = 0;
    let mut last_was_skip = false;
    let errcode = |errs: &mut Vec<(usize, usize)>, a: usize, b: usize| -> u64 {
        if sd.error_cb {
            errs.push((a, b));
            2_000_000 + (a as u64) * 1000 + b as u64
        } else {
            0
        }
    };
    while pos < len && guard < 2 * len + 4 {
        guard += 1;
        let o = lex_catch(s, 1, &input[pos..], Mode { max_items: 1, ..Mode::default() });
        let Some(first) = o.items.first().copied() else { break };
        if last_was_skip {
            flags.2 = true;
        }
        last_was_skip = false;
        match first.kind {
            None => {
                let (a, b) = (pos + first.start, pos + first.end);
                let c = errcode(&mut errs, a, b);
                items.push(Item { kind: None, start: a, end: b });
                codes.push(c);
                pos = b;
            }
            Some(leaf) => {
                let (p, variant) = leaves[leaf];
                let start = pos + first.start;
                let mut end = pos + first.end;
                let slice = &input[start..end];
                let outcome = match &p.callback {
                    None => {
                        if variant.is_none() {
                            1
                        } else {
                            0
                        }
                    }
                    Some(cb) => {
                        let n = bump_bytes(&input[end..], cb.bump, def.utf8);
                        cbs.push((leaf as u32, start, end, fnv(slice), n));
                        if n > 0 {
                            flags.1 = true;
                        }
                        end += n;
                        let opts = ret_options(cb.ret);
                        opts[(decide(cb.salt, slice) % opts.len() as u64) as usize]
                    }
                };
                if outcome != 0 {
                    flags.0 = true;
                }
                match outcome {
                    0 => {
                        let vi = match (&p.callback, variant) {
                            (Some(cb), Some(own)) if ret_is_token(cb.ret) => first_unit.unwrap_or(own),
                            (_, Some(own)) => own,
                            (_, None) => usize::MAX,
                        };
                        let has_val = sd.has_value.get(leaf).copied().unwrap_or(false) && !p.callback.as_ref().map(|c| ret_is_token(c.ret)).unwrap_or(false);
                        items.push(Item { kind: Some(vi), start, end });
                        vals.push(if has_val { cb_value(slice) } else { 0 });
                    }
                    1 => {
                        last_was_skip = true;
                    }
                    2 => {
                        let c = errcode(&mut errs, start, end);
                        items.push(Item { kind: None, start, end });
                        codes.push(c);
                    }
                    _ => {
                        items.push(Item { kind: None, start, end });
                        codes.push(1_000_000 + cb_value(slice));
                    }
                }
                pos = end;
            }
        }
    }
    let mut f = Vec::new();
    if obs.items != items {
        f.push(fnd("C13", 0, format!("items {:?} differ from the model {:?} (documented callback table applied to the callback-free twin)", obs.items, items)));
    } else if obs.vals != vals {
        f.push(fnd("C13", 0, format!("payloads {:?} differ from the model {:?}", obs.vals, vals)));
    } else if obs.err_codes != codes {
        f.push(fnd("C13", 0, format!("error values {:?} differ from the model {:?} (0 default, 1e6+ converted callback error, 2e6+ error callback)", obs.err_codes, codes)));
    } else if obs.cbs != cbs {
        f.push(fnd("C13", 0, format!("callback invocations (pattern, span, slice hash, bumped) {:?} differ from the model {:?}", obs.cbs, cbs)));
    } else if obs.errs != errs {
        f.push(fnd("C13", 0, format!("error callback invocations {:?} differ from the model {:?}", obs.errs, errs)));
    }
    // T1: always-Skip callbacks replaced by skip patterns give the identical stream
    if f.is_empty() && leaves.iter().any(|(p, v)| v.is_some() && p.kind == model::spec::PatKind::Regex && p.callback.as_ref().map(|c| c.ret == 3 && c.bump == 0).unwrap_or(false)) {
        let o1 = lex_catch(s, 2, input, Mode::default());
        if o1.items != obs.items || o1.err_codes != obs.err_codes || o1.vals != obs.vals {
            f.push(fnd("C13", 0, format!("replacing always-Skip callbacks by skip patterns changes the stream: {:?} vs {:?}", o1.items, obs.items)));
        }
        flags.2 = true;
    }
    if let Some(run) = run {
        if flags.0 || flags.1 || flags.2 {
            run.nontrivial(key);
        }
        for (b, n) in [(flags.0, "inputs_with_non_emit_decision"), (flags.1, "inputs_with_bump"), (flags.2, "inputs_with_skip_then_restart")] {
            if b {
                run.count(n, 1);
            }
        }
    }
    f
}

/// All findings of one (subject, input) for `prop`.
fn check_input(prop: &str, s: &dyn Subject, sd: &SubjectDef, p: &Prepared, input: &[u8], mut run: Option<&mut Run>, def_key: u64) -> Vec<Finding> {
    let utf8 = sd.def.utf8;
    let mode = Mode { trace: prop == "C20" || prop == "C02", ..Mode::default() };
    // C05: the source is an exactly sized heap allocation, so that a sanitizer build sees any read past its end
    let exact: Box<[u8]> = input.into();
    let input: &[u8] = &exact;
    let obs = lex_catch(s, 0, input, mode);
    let key = {
        let mut k = def_key.to_le_bytes().to_vec();
        k.extend_from_slice(input);
        fnv(&k)
    };
    let mut f = anomaly_findings(&obs, utf8);
    let panicked = obs.anomalies.iter().any(|a| a.starts_with("panic"));
    if let Some(run) = run.as_deref_mut() {
        run.eval(1);
        if !input.is_empty() {
            run.sample(|| json!({"definition": p.rust, "input": show(input), "items": obs.items.iter().map(|i| json!([i.kind, i.start, i.end])).collect::<Vec<_>>(), "skipped": obs.skips}));
        }
    }
    if panicked && prop == "C13" {
        // the callbacks of this family only bump whole chars of the remainder: a panic of the lexer means that a match did not
        // become the item the documented table prescribes
        let a = obs.anomalies.iter().find(|a| a.starts_with("panic")).cloned().unwrap_or_default();
        f.push(fnd("C13", 0, format!("the lexer panicked while running callbacks that decide from the matched text and bump within the source: {a}")));
    }
    if !panicked {
        match prop {
            "C01" | "C02" | "C03" | "C11" | "C10" => {
                let kind_of = |leaf: usize| p.reflex.pats[leaf].variant.unwrap_or(usize::MAX);
                let (mut jf, st) = judge(&p.reflex, &p.prio, input, &obs.items, obs.ended, &kind_of);
                // on the subpattern / literal families agreement of the compiled lexer with the pattern language (the
                // inlined patterns, the literal under the case-insensitive flag) is the clause of C11 / C10 itself
                if prop == "C11" || prop == "C10" {
                    let own: &'static str = if prop == "C11" { "C11" } else { "C10" };
                    for x in jf.iter_mut() {
                        if x.property == "C01" || x.property == "C02" {
                            x.property = own;
                        }
                    }
                }
                f.extend(jf);
                let skips = if sd.skip_log { Some(&obs.skips[..]) } else { None };
                f.extend(tiling(input.len(), &obs.items, skips, obs.ended, obs.none_again));
                if prop == "C02" {
                    // general clause: an attempt stops consuming exactly when no pattern can match an extension of
                    // what was read - no read may START beyond the longest viable prefix (+1 byte of slack;
                    // chunked reads may cover later bytes, that is batching, not consumption)
                    let mut i = 0;
                    let t = &obs.trace;
                    while i < t.len() {
                        if t[i].0 == 0 {
                            let start = t[i].1;
                            let mut j = i + 1;
                            let mut maxoff = start;
                            while j < t.len() && t[j].0 == 1 {
                                maxoff = maxoff.max(t[j].1);
                                j += 1;
                            }
                            if start < input.len() && j > i + 1 {
                                let a = p.reflex.attempt(input, start, &p.prio);
                                if maxoff > start + a.viable + 1 {
                                    f.push(fnd("C02", start, format!("the attempt at {start} read at offset {maxoff} although no pattern can match any extension of the first {} bytes read from {start}", a.viable)));
                                    break;
                                }
                            }
                            i = j;
                        } else {
                            i += 1;
                        }
                    }
                }
                if let Some(run) = run.as_deref_mut() {
                    run.count("attempts", st.attempts as u64);
                    run.count("error_attempts", st.err_attempts as u64);
                    let list = match prop {
                        "C01" => st.c01_nontrivial.clone(),
                        "C02" => st.c02_nontrivial.clone(),
                        _ => {
                            let ends_in_skip = obs.skips.iter().any(|&(_, b)| b == input.len());
                            let ends_in_err = obs.items.last().map(|i| i.kind.is_none() && i.end == input.len()).unwrap_or(false);
                            if ends_in_skip || ends_in_err || input.is_empty() {
                                vec![0]
                            } else {
                                vec![]
                            }
                        }
                    };
                    for a in list {
                        run.nontrivial(key ^ (a as u64 + 1).wrapping_mul(0x9E3779B97F4A7C15));
                    }
                }
            }
            "C04" => {
                if let Some(run) = run.as_deref_mut() {
                    // non-trivial: a token/error boundary adjacent to a multi-byte char
                    let adj = obs.items.iter().any(|i| (i.end < input.len() && input[i.end] >= 0x80) || (i.end > 0 && input[i.end - 1] >= 0x80));
                    if utf8 && adj {
                        run.nontrivial(key);
                    }
                }
            }
            "C05" => {
                // every prefix length of short inputs (loop exits land on every residue modulo the 8-byte batch)
                if input.len() <= 40 {
                    for k in 0..input.len() {
                        if utf8 && (input[k] & 0xC0) == 0x80 {
                            continue;
                        }
                        let pre: Box<[u8]> = input[..k].into();
                        let o = lex_catch(s, 0, &pre, Mode::default());
                        if let Some(run) = run.as_deref_mut() {
                            run.eval(1);
                        }
                        f.extend(anomaly_findings(&o, utf8));
                        let o = lex_catch(s, 0, &pre, Mode { partial: true, ..Mode::default() });
                        f.extend(anomaly_findings(&o, utf8));
                    }
                }
                if let Some(run) = run.as_deref_mut() {
                    // non-trivial: a token ends exactly at the end of the allocation, or the input length is within
                    // 8 of a multiple of 8 and the definition has a fast loop
                    if obs.items.last().map(|i| i.end == input.len()).unwrap_or(false) {
                        run.nontrivial(key);
                    }
                }
            }
            "C07" => {
                if sd.family == "callbacks" {
                    f.extend(partial_cb_findings(s, sd, utf8, input, &obs, run.as_deref_mut(), key));
                } else {
                    f.extend(partial_findings(s, p, utf8, input, &obs, run.as_deref_mut(), key));
                }
            }
            "C12" => {
                if utf8 && sd.twin {
                    f.extend(twin_findings(s, input, &obs, run.as_deref_mut(), key));
                } else if utf8 {
                    if let Some(run) = run.as_deref_mut() {
                        run.count("inputs_of_subjects_without_twin", 1);
                    }
                } else if std::str::from_utf8(input).is_err() {
                    // second clause: in byte mode Unicode-aware patterns never match across invalid sequences -
                    // the reference (same patterns on bytes) decides; only inputs that are not valid UTF-8 count here
                    let kind_of = |leaf: usize| p.reflex.pats[leaf].variant.unwrap_or(usize::MAX);
                    let (jf, _) = judge(&p.reflex, &p.prio, input, &obs.items, obs.ended, &kind_of);
                    for mut x in jf {
                        if x.property == "C01" {
                            x.property = "C12";
                            x.what = format!("byte-mode lexer on an invalid UTF-8 input: {}", x.what);
                            f.push(x);
                        }
                    }
                    if let Some(run) = run.as_deref_mut() {
                        run.nontrivial(key);
                        run.count("byte_mode_inputs_with_invalid_utf8", 1);
                    }
                }
            }
            "C13" => {
                f.extend(callback_findings(s, sd, input, &obs, run.as_deref_mut(), key));
                // "the match" a callback is handed is the longest match of the winning pattern: the callback-free twin (one unit
                // variant per leaf, skips visible) against the reference, per attempt on the twin's own positions
                if sd.family == "callbacks" {
                    let t0 = lex_catch(s, 1, input, Mode::default());
                    if !t0.anomalies.iter().any(|a| a.starts_with("panic")) {
                        for it in &t0.items {
                            if it.start >= input.len() {
                                break;
                            }
                            let a = p.reflex.attempt(input, it.start, &p.prio);
                            let bad = match (&a.verdict, it.kind) {
                                (model::reference::Verdict::Match { end, winners, .. }, Some(leaf)) => !(winners.len() == 1 && winners[0] == leaf && *end == it.end),
                                (model::reference::Verdict::Match { .. }, None) => true,
                                (model::reference::Verdict::Error { .. }, Some(_)) => true,
                                (model::reference::Verdict::Error { .. }, None) => false,
                            };
                            if bad {
                                f.push(fnd("C13", it.start, format!("the match the callbacks are run on is not the longest match of the winning pattern: at {} the callback-free twin yields {:?} {}..{}, the reference says {:?}", it.start, it.kind, it.start, it.end, a.verdict)));
                                break;
                            }
                        }
                    }
                }
                // the protocol also holds when the buffer is a prefix: a callback runs once per winning match, on that match -
                // never on a match the rest of the input extends (short inputs: every split point)
                if sd.family == "callbacks" && input.len() <= 24 {
                    for mut x in partial_cb_findings(s, sd, utf8, input, &obs, None, key) {
                        x.property = "C13";
                        x.what = format!("callbacks under partial lexing: {}", x.what);
                        f.push(x);
                    }
                }
            }
            "C20" => {
                f.extend(trace_findings(&obs, run.as_deref_mut(), key));
            }
            _ => {}
        }
    }
    f.retain(|x| x.property == prop);
    f
}

/// Long adversarial inputs for the stress family: (name, bytes). `big` scales the single-token shapes.
pub fn stress_inputs(sd: &SubjectDef, idx_in_family: usize, big: usize, quadratic: usize) -> Vec<(String, Vec<u8>)> {
    let rep = |s: &str, n: usize| s.repeat(n).into_bytes();
    let mut v: Vec<(String, Vec<u8>)> = Vec::new();
    match (sd.family.as_str(), idx_in_family) {
        ("stress", 0) => {
            v.push(("consecutive pattern skips".into(), rep(" ", big)));
            v.push(("one giant self-loop token".into(), rep("a", big)));
            let mut t = b"x".to_vec();
            t.extend(rep("yx", big / 2));
            t.push(b'z');
            v.push(("one giant 2-cycle token".into(), t));
            v.push(("many short tokens".into(), rep("b;", big / 2)));
            v.push(("skips and tokens".into(), rep("a \n b ", big / 6)));
            let mut u = b"x".to_vec();
            u.extend(rep("yx", quadratic / 2));
            v.push(("almost matching 2-cycle (errors)".into(), u));
        }
        ("stress", 3) => {
            v.push(("root loop running to the end of the input".into(), rep(" ", big)));
            v.push(("root loop before every token".into(), rep("   ab  12 ;", big / 11)));
            let mut t = rep(" ", quadratic);
            t.push(b'?');
            v.push(("root loop ending in an error".into(), t));
            v.push(("root loop, short".into(), b"  ".to_vec()));
        }
        ("stress", 1) => {
            v.push(("(a*)*b without the b".into(), rep("a", quadratic)));
            let mut t = rep("a", big);
            t.push(b'b');
            v.push(("(a*)*b matching".into(), t));
            v.push(("(c|cc)+d without the d".into(), rep("c", quadratic)));
            let mut t = rep("c", big);
            t.push(b'd');
            v.push(("(c|cc)+d matching".into(), t));
            let mut t = b"e".to_vec();
            t.extend(rep("fgh", big / 3));
            t.push(b'i');
            v.push(("(e|ef)(g|fgh)*i matching".into(), t));
            let mut t = b"ef".to_vec();
            t.extend(rep("g", quadratic));
            v.push(("(e|ef)(g|fgh)*i without the i".into(), t));
            let mut t = b"k".to_vec();
            t.extend(rep("xl", big / 2));
            v.push(("k(.*l)? long".into(), t));
            let mut t = b"k".to_vec();
            t.extend(rep("x", big));
            v.push(("k(.*l)? without l (late accept far back)".into(), t));
            v.push(("(m+n?)+o without the o".into(), rep("mmn", quadratic / 3)));
            v.push(("[p-r]{1,3}(?:pq|qr){2,}s almost".into(), rep("pqrpqqr", quadratic / 7)));
        }
        ("stress", 2) => {
            v.push(("long identifier".into(), rep("abcdefghijklmnopqrstuvwxyz0123456789", big / 36)));
            v.push(("keyword prefixes".into(), rep("abcdefghijklmnop abcdefghijklmno abcdefghijklmnopqrstuvwxyz012345678 ", big / 70)));
            let mut t = b"\"".to_vec();
            t.extend(rep("\\\"x", big / 3));
            v.push(("unterminated string with escapes".into(), {
                let mut u = b"\"".to_vec();
                u.extend(rep("\\\"x", quadratic / 3));
                u
            }));
            t.push(b'"');
            v.push(("long string with escapes".into(), t));
            v.push(("numbers".into(), rep("12345.", big / 6)));
        }
        ("stress-cb", _) => {
            v.push(("consecutive callback Skips".into(), rep(" ", big)));
            v.push(("consecutive Filter::Skip".into(), rep("\n", big)));
            v.push(("consecutive skip-pattern callbacks".into(), rep("-", big)));
            v.push(("mixed skips and tokens".into(), rep(" -\nwwb", big / 7)));
        }
        _ => {}
    }
    v
}

fn families_for(prop: &str) -> &'static [&'static str] {
    match prop {
        "C13" => &["callbacks"],
        "C07" => &["core", "callbacks"],
        "C20" => &["core", "callbacks", "stress", "stress-cb"],
        "C11" => &["sub"],
        "C10" => &["lit"],
        "C01" | "C12" | "C06" | "C05" => &["core", "sub"],
        _ => &["core"],
    }
}

fn rule_for(prop: &str) -> String {
    let base = "tier X: compiled #[derive(Logos)] lexers of proptest-generated definitions; inputs = joint transition cover + proptest random walks/noise; ";
    let tail = match prop {
        "C01" => "oracle = reference lexer per attempt; non-trivial = distinct (definition,input,attempt) with >=2 matching patterns / several match ends / viable text beyond the match",
        "C02" => "oracle = error span rule from the reference; non-trivial = distinct error attempts with span >1 byte, rounding, or ending at end of input",
        "C03" => "oracle = tiling/termination invariants with skipped regions logged by skip callbacks; non-trivial = inputs empty / ending in a skip / ending in an error",
        "C04" => "oracle = char-boundary predicate on every observable span, then slice()/remainder() equality; non-trivial = distinct (definition,input) with an item boundary adjacent to a multi-byte char",
        "C05" => "oracle = no panic / no sanitizer report, exactly sized heap inputs; non-trivial = distinct (definition,input) whose last item ends exactly at the end of the allocation",
        "C07" => "every split point of every input: partial items are a leading run of the one-shot items of the input and of 6 alternative continuations, empty span at None, rest re-lexes to the remaining items, chunked history reproduces the stream (same build); on the callbacks family (decisions are functions of the matched text): committed items with payloads / error codes and the callback invocations are a leading run of the one-shot ones, the rest re-lexes, chunked history for bump-free definitions (a bumping callback near the split sees a cut remainder: nothing from its match on is compared); non-trivial = splits strictly inside an item/skip or where the partial lexer stopped before the split",
        "C11" => "subpattern family on compiled lexers: definitions with (?&name) references (nested, str and byte-string subpatterns, str and byte mode); oracle = reference lexer built from the AST-inlined patterns; non-trivial = attempts with >= 2 matching patterns / several match ends",
        "C10" => "literal family on compiled lexers: #[token] literals over metacharacters, cased non-ASCII chars (incl. case pairs whose encodings differ in one bit other than 0x20, in two bytes, in length) and arbitrary bytes, with / without ignore(case), case-insensitive regexes and skips; inputs additionally hold the case variants of every literal; oracle = reference lexer (exact bytes / regex crate under the case-insensitive flag); non-trivial = attempts with >= 2 matching patterns / several match ends",
        "C12" => "str-mode definitions compiled twice (utf8 default / utf8 = false) in one module, same valid UTF-8 input to both; oracle: Ok tokens with spans equal and the sets of bytes covered by errors equal (twin against twin); non-trivial = distinct (definition,input) with a multi-byte char inside or next to an error",
        "C13" => "callbacks family: every pattern carries a callback (return type from the whole documented table, decision = pure function of salt and matched text, bump of 0-2 chars, 6 attachment forms (function path or inline closure, positional or callback =, closure bodies that start with a parenthesised group or are a block), optional error callback, custom error type with From); oracle: model driven by the callback-free twin T0 (one unit variant per leaf) restarted after every item at the position the model computes, decisions applied per the documented table: items, spans, payloads, error codes, callback log (exactly one entry per winning match with span/slice of the match, bumped bytes) and error-callback log must be equal; plus the T1 twin where always-Skip callbacks are replaced by skip patterns; non-trivial = distinct (definition,input) with a non-Emit decision, a bump > 0, or a Skip followed by a restart",
        "C20" => "oracle on the read trace (hook): offsets non-decreasing per attempt, reads <= 4*(examined+1)+16, first read at the attempt start; non-trivial = attempts examining >= 16 bytes",
        _ => "",
    };
    format!("{base}{tail}")
}

fn subject_replay(prop: &str, cfg: &BuildCfg, idx: usize, sd: &SubjectDef, rust: &str, input: &[u8], f: &[Finding]) -> Value {
    json!({"property": prop, "tier": "X", "config": cfg.name(), "subject_index": idx, "family": sd.family, "skip_log": sd.skip_log, "has_value": sd.has_value, "error_cb": sd.error_cb, "twin": sd.twin,
           "def": sd.def, "rendered_rust": rust, "input_hex": hex(input), "input": show(input), "findings": f})
}

pub fn main(subjects: &[&'static dyn Subject], defs_json: &str, cfg: BuildCfg) -> i32 {
    let args = Args::parse();
    if args.prop == "MIRILEX" {
        // under Miri: no defs.json parsing, no model code, just lexing
        return mirilex(subjects, &args);
    }
    let set: SubjectSet = serde_json::from_str(defs_json).expect("defs.json");
    assert_eq!(set.defs.len(), subjects.len(), "subject table and defs.json disagree");
    let prop = args.prop.clone();
    if prop == "HANGCHECK" {
        // child of the watchdog: lex one case and exit
        let idx = args.extra_u64("def", 0) as usize;
        let which = args.extra_u64("which", 0) as u8;
        let partial = args.extra_u64("partial", 0) == 1;
        let input = unhex(args.extra.get("input").map(|s| s.as_str()).unwrap_or(""));
        let _ = lex_catch(subjects[idx], which, &input, Mode { partial, ..Mode::default() });
        return 0;
    }
    if !["STACK", "STACKCHILD", "REPLAY"].contains(&prop.as_str()) {
        start_watchdog(&prop, &set, &args, &cfg);
    }
    if prop == "DUMP" {
        return dump(subjects, &set, &args);
    }
    if prop == "REPLAY" {
        return replay(subjects, &set, &args, &cfg);
    }
    if prop == "STACKCHILD" {
        return stack_child(subjects, &set, &args);
    }
    if prop == "STACK" {
        return stack_parent(&set, &args, &cfg);
    }
    let mut run = Run::new(&prop, &args.tier, args.seed, &rule_for(&prop));
    run.assumptions = vec![
        format!("build configuration {}", cfg.name()),
        "definitions are those the library entry point of the current tree accepts; the reference is built from the definition source".into(),
        "str-mode lexers only get valid UTF-8 inputs".into(),
    ];
    let fams = families_for(&prop);
    let caps = if args.thorough() { (1500, 4000) } else { (300, 900) };
    let cases: u32 = if args.cases > 0 { args.cases } else if args.thorough() { 2500 } else { 800 };
    // C07 is quadratic per input: fewer, shorter inputs
    let (caps, cases) = if prop == "C07" { ((caps.0 / 3, caps.1 / 4), cases / 3) } else { (caps, cases) };
    let mut code = 0;
    for (idx, sd) in set.defs.iter().enumerate() {
        if !fams.contains(&sd.family.as_str()) {
            continue;
        }
        let s = subjects[idx];
        let p = match prepare(&sd.def) {
            Ok(p) => p,
            Err(_) => {
                // the tree changed since subjgen ran; the check script regenerates before building, so this is a harness fault
                eprintln!("subject {idx} is not accepted by the current tree (stale subject set?)");
                return 2;
            }
        };
        run.count("subjects", 1);
        let def_key = fnv(p.rust.as_bytes());
        if sd.family.starts_with("stress") {
            let fam_idx = set.defs.iter().take(idx).filter(|d| d.family == sd.family).count();
            let (big, quad) = if args.thorough() { (262_144, 8192) } else { (65_536, 2048) };
            let mut failed = None;
            for (name, input) in stress_inputs(sd, fam_idx, big, quad) {
                // the tail-call generator recurses per skipped region: give the lexer a large stack so that
                // the read pattern (C20), not stack use (C06), is what this run observes
                let obs = std::thread::scope(|sc| {
                    std::thread::Builder::new()
                        .stack_size(2usize << 30)
                        .spawn_scoped(sc, || lex_catch(s, 0, &input, Mode { trace: true, count_only: true, ..Mode::default() }))
                        .expect("spawn")
                        .join()
                        .expect("join")
                });
                run.eval(1);
                run.count("stress_inputs", 1);
                run.count("stress_trace_events", obs.trace.len() as u64);
                let key = def_key ^ fnv(name.as_bytes());
                let mut f = trace_findings(&obs, Some(&mut run), key);
                if let Some(a) = obs.anomalies.first() {
                    f.push(fnd("C20", 0, format!("stress input '{name}': {a}")));
                }
                if !obs.ended {
                    f.push(fnd("C20", 0, format!("stress input '{name}': iteration did not end")));
                }
                run.sample(|| json!({"definition": p.rust, "stress_input": name, "bytes": input.len(), "ok_items": obs.n_ok, "err_items": obs.n_err, "trace_events": obs.trace.len()}));
                if !f.is_empty() {
                    failed = Some((input, f));
                    break;
                }
            }
            if let Some((input, f)) = failed {
                run.violations = 1;
                report_violation(&prop, &args.replay_dir, &subject_replay(&prop, &cfg, idx, sd, &p.rust, &input, &f));
                code = 1;
                break;
            }
            continue;
        }
        let check = |input: &[u8], run: Option<&mut Run>| check_input(&prop, s, sd, &p, input, run, def_key);
        if let Some((input, f)) = run_inputs(&p, &sd.def, caps, cases, args.seed ^ (idx as u64) << 20 ^ fnv(prop.as_bytes()), &mut run, &check) {
            run.frozen = false;
            run.violations = 1;
            report_violation(&prop, &args.replay_dir, &subject_replay(&prop, &cfg, idx, sd, &p.rust, &input, &f));
            code = 1;
            break;
        }
    }
    run.write_evidence(&args.evidence);
    code
}

/// Write one line per (subject, input): index, input hex, observation JSON. Used for the
/// build-against-build differentials (C05, C06).
fn dump(subjects: &[&'static dyn Subject], set: &SubjectSet, args: &Args) -> i32 {
    let out = args.extra.get("out").expect("--out");
    let mut w = std::io::BufWriter::new(std::fs::File::create(out).expect("create dump"));
    let n_random = args.extra_u64("random", 150) as usize;
    let caps = if args.thorough() { (1500, 4000) } else { (300, 900) };
    let partial = args.extra.get("partial").map(|v| v == "1").unwrap_or(true);
    for (idx, sd) in set.defs.iter().enumerate() {
        let Ok(p) = prepare(&sd.def) else { return 2 };
        let inputs = fixed_inputs(&p, &sd.def, caps, n_random, args.seed ^ (idx as u64) << 20, None);
        for input in inputs {
            let o = lex_catch(subjects[idx], 0, &input, Mode::default());
            writeln!(w, "{idx} {} 0 {}", hex(&input), serde_json::to_string(&o).unwrap()).unwrap();
            if partial && input.len() <= 24 {
                let o = lex_catch(subjects[idx], 0, &input, Mode { partial: true, ..Mode::default() });
                writeln!(w, "{idx} {} 1 {}", hex(&input), serde_json::to_string(&o).unwrap()).unwrap();
            }
        }
    }
    0
}

/// Interpreter-as-sanitizer stage (C05): re-lexes cases of a native DUMP file on exactly sized heap copies and writes the
/// records in the same format. Meant to run under Miri (`cargo miri run`), which aborts on the first out-of-bounds pointer
/// offset, out-of-range `get_unchecked`, or read of bytes outside the allocation; the line printed to stderr before each
/// case identifies the input. `--stride k --phase j` selects every k-th record, `--max-len` bounds the input length.
fn mirilex(subjects: &[&'static dyn Subject], args: &Args) -> i32 {
    use std::io::BufRead;
    let inp = args.extra.get("in").expect("--in");
    let out = args.extra.get("out").expect("--out");
    let stride = args.extra_u64("stride", 1).max(1) as usize;
    let phase = args.extra_u64("phase", 0) as usize;
    let max_len = args.extra_u64("max-len", 64) as usize;
    let r = std::io::BufReader::new(std::fs::File::open(inp).expect("open --in"));
    let mut w = std::io::BufWriter::new(std::fs::File::create(out).expect("create --out"));
    let mut n = 0usize;
    for line in r.lines() {
        let line = line.expect("read");
        let mut it = line.splitn(4, ' ');
        let (Some(idx), Some(hx), Some(mode)) = (it.next(), it.next(), it.next()) else { continue };
        if hx.len() / 2 > max_len {
            continue;
        }
        n += 1;
        if n % stride != phase % stride {
            continue;
        }
        let idx: usize = idx.parse().expect("index");
        eprintln!("CASE {idx} {hx} {mode}");
        let exact: Box<[u8]> = unhex(hx).into_boxed_slice();
        let o = lex_catch(subjects[idx], 0, &exact, Mode { partial: mode == "1", ..Mode::default() });
        writeln!(w, "{idx} {hx} {mode} {}", serde_json::to_string(&o).unwrap()).unwrap();
    }
    w.flush().unwrap();
    0
}

/// Re-run one saved case through the plain path (no generator library).
fn replay(subjects: &[&'static dyn Subject], set: &SubjectSet, args: &Args, cfg: &BuildCfg) -> i32 {
    let path = args.replay.as_ref().expect("--replay");
    let v: Value = serde_json::from_str(&std::fs::read_to_string(path).expect("read replay")).expect("json");
    let prop = v["property"].as_str().unwrap().to_string();
    let input = unhex(v["input_hex"].as_str().unwrap_or(""));
    // the replay subject set holds exactly the replayed definition at index 0
    let sd = &set.defs[0];
    let s = subjects[0];
    let Ok(p) = prepare(&sd.def) else {
        println!("replay: definition is not accepted any more; no violation of {prop}");
        return 0;
    };
    if v.get("hang").is_some() {
        let exe = std::env::current_exe().unwrap();
        let partial = v["partial"].as_bool().unwrap_or(false);
        let mut child = std::process::Command::new(exe)
            .args(["HANGCHECK", "--def", "0", "--which", "0", "--partial", if partial { "1" } else { "0" }, "--input", &hex(&input)])
            .spawn()
            .expect("spawn");
        let t0 = std::time::Instant::now();
        while t0.elapsed().as_secs() < 20 {
            if let Ok(Some(_)) = child.try_wait() {
                println!("replay: lexing terminates; no violation of {prop} in config {}", cfg.name());
                return 0;
            }
            std::thread::sleep(std::time::Duration::from_millis(100));
        }
        let _ = child.kill();
        println!("replay[{}]: lexing {} does not terminate within 20 s", cfg.name(), show(&input));
        println!("VIOLATION property={prop} replay={}", path.display());
        return 1;
    }
    if let Some(mode) = v.get("dump_mode") {
        // differential replay: print the observation for the check script to compare
        let partial = mode.as_u64() == Some(1);
        let o = lex_catch(s, 0, &input, Mode { partial, ..Mode::default() });
        println!("OBS {} {}", cfg.name(), serde_json::to_string(&o).unwrap());
        return 0;
    }
    let f = check_input(&prop, s, sd, &p, &input, None, 0);
    if f.is_empty() {
        println!("replay: no violation of {prop} in config {}", cfg.name());
        0
    } else {
        for x in &f {
            println!("replay[{}]: {}", cfg.name(), x.what);
        }
        println!("VIOLATION property={prop} replay={}", path.display());
        1
    }
}

#[allow(dead_code)]
fn _unused(_: &dyn Fn(&[u8]) -> bool) {
    let _ = shrink_input;
}

/// C06 stack clause, child: lex one stress input on a thread with a fixed stack; prints counts.
fn stack_child(subjects: &[&'static dyn Subject], set: &SubjectSet, args: &Args) -> i32 {
    let idx = args.extra_u64("def", 0) as usize;
    let shape = args.extra_u64("shape", 0) as usize;
    let size = args.extra_u64("size", 1000) as usize;
    let stack = args.extra_u64("stack", 256 * 1024) as usize;
    let sd = &set.defs[idx];
    let fam_idx = set.defs.iter().take(idx).filter(|d| d.family == sd.family).count();
    let inputs = stress_inputs(sd, fam_idx, size, size.min(2048));
    let Some((name, input)) = inputs.into_iter().nth(shape) else { return 3 };
    let s: &'static dyn Subject = subjects[idx];
    let h = std::thread::Builder::new()
        .stack_size(stack)
        .spawn(move || {
            let o = s.lex(0, &input, Mode { count_only: true, ..Mode::default() });
            (o.n_ok, o.n_err, o.ended)
        })
        .expect("spawn");
    match h.join() {
        Ok((ok, err, ended)) => {
            println!("STACKOK {name} ok={ok} err={err} ended={ended}");
            0
        }
        Err(_) => 4,
    }
}

/// C06 stack clause, parent: sizes 10^3, 10^5, 4*10^6 per (definition, shape) in child processes with
/// a fixed thread stack; death at a larger size with success at the smallest size = violation.
fn stack_parent(set: &SubjectSet, args: &Args, cfg: &BuildCfg) -> i32 {
    let mut run = Run::new(
        "C06",
        &args.tier,
        args.seed,
        "stack clause: state-machine build, child process per (stress definition, input shape, size in {16, 10^3, 10^5, 4*10^6}); the lexer runs on a worker thread with a fixed 256 KiB stack over consecutive skips (pattern skip, callback Skip, Filter::Skip, skip-pattern callback), one giant token (self-loop, 2-cycle), many short tokens, adversarial repetitions; oracle: the child survives every size (death by signal at a larger size after success at 16 bytes = stack use grows with input length / token length / number of consecutive skips); non-trivial = runs with >= 10^5 bytes",
    );
    run.assumptions = vec![format!("build configuration {}", cfg.name()), "a 256 KiB thread stack is enough for any input-independent frame use (the 16-byte run must succeed, otherwise the limit is doubled once and recorded)".into()];
    let exe = std::env::current_exe().unwrap();
    // the smallest size is the input-independent baseline: it must fit the fixed stack
    let sizes: &[usize] = if args.thorough() { &[16, 1_000, 100_000, 4_000_000, 16_000_000] } else { &[16, 1_000, 100_000, 4_000_000] };
    let mut code = 0;
    'outer: for (idx, sd) in set.defs.iter().enumerate() {
        if !sd.family.starts_with("stress") {
            continue;
        }
        let fam_idx = set.defs.iter().take(idx).filter(|d| d.family == sd.family).count();
        let nshapes = stress_inputs(sd, fam_idx, 64, 64).len();
        for shape in 0..nshapes {
            let mut stack = 256 * 1024;
            let mut base_ok = false;
            for (k, &size) in sizes.iter().enumerate() {
                let run_child = |stack: usize| {
                    std::process::Command::new(&exe)
                        .args(["STACKCHILD", "--def", &idx.to_string(), "--shape", &shape.to_string(), "--size", &size.to_string(), "--stack", &stack.to_string()])
                        .output()
                        .expect("child")
                };
                let mut out = run_child(stack);
                if k == 0 && !out.status.success() {
                    stack *= 2;
                    run.count("stack_limit_doubled", 1);
                    out = run_child(stack);
                }
                run.eval(1);
                let text = String::from_utf8_lossy(&out.stdout).to_string();
                if out.status.success() {
                    if k == 0 {
                        base_ok = true;
                    }
                    if size >= 100_000 {
                        run.nontrivial(fnv(format!("{idx}-{shape}-{size}").as_bytes()));
                    }
                    run.sample(|| json!({"subject": idx, "shape": shape, "size": size, "stack": stack, "result": text.trim()}));
                } else if base_ok {
                    let name = stress_inputs(sd, fam_idx, 64, 64)[shape].0.clone();
                    run.violations = 1;
                    report_violation(
                        "C06",
                        &args.replay_dir,
                        &json!({"property": "C06", "tier": "X", "config": cfg.name(), "stack_case": {"def": idx, "shape": shape, "size": size, "stack": stack}, "def": sd.def, "family": sd.family, "has_value": sd.has_value,
                                "findings": [{"property": "C06", "what": format!("state-machine lexer died ({:?}) on '{name}' with {size} bytes on a {stack}-byte stack after succeeding with 16 bytes", out.status)}]}),
                    );
                    code = 1;
                    break 'outer;
                } else {
                    eprintln!("stack check: base size fails for subject {idx} shape {shape} even with a doubled stack; inconclusive");
                    run.count("inconclusive_shapes", 1);
                    break;
                }
            }
        }
    }
    run.write_evidence(&args.evidence);
    code
}

/// Hang watchdog: a thread that notices when no lex call has completed for 30 s, confirms the hang on
/// the current (subject, input) in a child process (20 s), and then ends the run: for C03 (whose clause
/// is termination) with a VIOLATION and a replay file, for every other property with exit 2
/// (inconclusive) - a hang is never reported as a violation of another property.
fn start_watchdog(prop: &str, set: &SubjectSet, args: &Args, cfg: &BuildCfg) {
    use std::sync::atomic::Ordering;
    let prop = prop.to_string();
    let replay_dir = args.replay_dir.clone();
    let cfg = *cfg;
    let defs: Vec<SubjectDef> = set.defs.clone();
    std::thread::spawn(move || {
        let mut last = crate::PROGRESS.load(Ordering::Relaxed);
        let mut stuck = 0u32;
        loop {
            std::thread::sleep(std::time::Duration::from_secs(2));
            let now = crate::PROGRESS.load(Ordering::Relaxed);
            if now != last {
                last = now;
                stuck = 0;
                continue;
            }
            stuck += 1;
            if stuck < 15 || now == 0 {
                continue;
            }
            let cur = crate::CURRENT.lock().ok().and_then(|c| c.clone());
            let Some((idx, which, input, partial)) = cur else { continue };
            // confirm in a child process
            let exe = std::env::current_exe().unwrap();
            let mut child = std::process::Command::new(exe)
                .args(["HANGCHECK", "--def", &idx.to_string(), "--which", &which.to_string(), "--partial", if partial { "1" } else { "0" }, "--input", &hex(&input)])
                .spawn()
                .expect("spawn hangcheck");
            let t0 = std::time::Instant::now();
            let mut finished = false;
            while t0.elapsed().as_secs() < 20 {
                if let Ok(Some(_)) = child.try_wait() {
                    finished = true;
                    break;
                }
                std::thread::sleep(std::time::Duration::from_millis(200));
            }
            let _ = child.kill();
            // C03 owns termination on the core family. On the other families (callbacks, subpattern, stress) no C03 run
            // would see the hang; there the oracle of the running property prescribes a finite stream which the lexer
            // does not deliver, so the hang is that property's violation.
            let owned: Option<&'static str> = match prop.as_str() {
                "C03" => Some("C03"),
                "C11" if defs[idx].family != "core" => Some("C11"),
                "C10" if defs[idx].family != "core" => Some("C10"),
                "C12" if defs[idx].family != "core" => Some("C12"),
                "C13" if defs[idx].family != "core" => Some("C13"),
                "C20" if defs[idx].family != "core" => Some("C20"),
                "C01" if defs[idx].family != "core" => Some("C01"),
                _ => None,
            };
            if let (false, Some(pid)) = (finished, owned) {
                let sd = &defs[idx];
                let f = vec![Finding { property: pid, at: 0, what: format!("lexing {} does not terminate: no item was returned within 30 s, confirmed in a fresh process (20 s)", show(&input)) }];
                let rust = model::prep::render(&sd.def);
                let mut doc = subject_replay(pid, &cfg, idx, sd, &rust, &input, &f);
                doc["hang"] = json!(true);
                doc["partial"] = json!(partial);
                report_violation(pid, &replay_dir, &doc);
                std::process::exit(1);
            }
            if !finished && prop == "DUMP" {
                // build-against-build differential: the check script asks the other configuration whether it terminates
                println!("HANG {idx} {} {}", hex(&input), if partial { 1 } else { 0 });
                std::process::exit(3);
            }
            eprintln!("watchdog: no progress for 30 s on subject {idx} input {} (hang confirmed: {}); property {prop} is not the termination property: inconclusive", show(&input), !finished);
            std::process::exit(2);
        }
    });
}

/// Entry point for the libFuzzer target: every property judged from a compiled core-family subject
/// on one input. Returns the findings (any property).
pub fn fuzz_check(s: &dyn Subject, sd: &SubjectDef, p: &Prepared, input: &[u8], with_partial: bool) -> Vec<Finding> {
    let mut out = Vec::new();
    for prop in ["C01", "C02", "C03", "C04", "C05", "C12", "C20"] {
        out.extend(check_input(prop, s, sd, p, input, None, 0));
    }
    if with_partial && input.len() <= 24 {
        out.extend(check_input("C07", s, sd, p, input, None, 0));
    }
    out
}
