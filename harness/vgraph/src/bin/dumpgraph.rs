use model::prep::derive_rust;
fn main() {
    let src = std::fs::read_to_string(std::env::args().nth(1).unwrap()).unwrap();
    let d = derive_rust(src);
    println!("errors: {:?} panic: {:?}", d.errors, d.panic);
    if let Some(g) = d.graph {
        println!("root {} leaves {:?}", g.root, g.leaves.iter().map(|l| (&l.display, l.priority)).collect::<Vec<_>>());
        for (i, s) in g.states.iter().enumerate() {
            println!("state {i}: early {:?} accept {:?} eoi {:?}", s.early, s.accept, s.eoi);
            for (r, n) in &s.normal {
                println!("    {:?} -> {n}", r.iter().map(|(a, b)| format!("{a:02x}-{b:02x}")).collect::<Vec<_>>().join(","));
            }
        }
    }
}
