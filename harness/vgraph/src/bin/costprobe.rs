//! Debug aid: distribution of the generator-side cost gate (`reference::cost_ok`) and of derive times per family.
use model::gen::{callback_defs, conflict_defs, lexing_defs, literal_defs, pair_defs, subpattern_defs};
use model::prep::derive_def;
use model::reference::cost_ok;
use proptest::prelude::*;
use proptest::strategy::ValueTree;
use proptest::test_runner::{Config, RngSeed, TestRunner};
use std::time::Instant;

fn main() {
    let n: usize = std::env::args().nth(1).and_then(|s| s.parse().ok()).unwrap_or(500);
    let seed: u64 = std::env::args().nth(2).and_then(|s| s.parse().ok()).unwrap_or(0);
    let limit: usize = std::env::args().nth(3).and_then(|s| s.parse().ok()).unwrap_or(1 << 20);
    let fams: Vec<(&str, BoxedStrategy<model::spec::DefSpec>)> = vec![
        ("lexing", lexing_defs()),
        ("sub", subpattern_defs().prop_map(|c| c.def).boxed()),
        ("literal", literal_defs()),
        ("conflict", conflict_defs()),
        ("pair", pair_defs()),
        ("callback", callback_defs().prop_map(|(d, _, _)| d).boxed()),
    ];
    for (name, strat) in fams {
        let mut runner = TestRunner::new(Config { rng_seed: RngSeed::Fixed(seed), failure_persistence: None, ..Config::default() });
        let (mut gated, mut tgate, mut tderive, mut worst) = (0usize, 0f64, 0f64, (0f64, String::new()));
        for _ in 0..n {
            let def = strat.new_tree(&mut runner).unwrap().current();
            let t = Instant::now();
            let ok = cost_ok(&def, limit);
            tgate += t.elapsed().as_secs_f64();
            if !ok {
                gated += 1;
                continue;
            }
            let t = Instant::now();
            let d = derive_def(&def);
            let e = t.elapsed().as_secs_f64();
            tderive += e;
            if e > worst.0 {
                worst = (e, d.rust.clone());
            }
        }
        println!("{name:9} n={n} gated={gated} gate_time={tgate:.2}s derive_time={tderive:.2}s worst_derive={:.2}s\n{}", worst.0, worst.1);
    }
}
