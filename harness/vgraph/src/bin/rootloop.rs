//! Debug aid: how often the core family yields an accepted definition whose graph root loops on itself.
use model::gen::lexing_defs;
use model::prep::prepare;
use proptest::strategy::{Strategy, ValueTree};
use proptest::test_runner::{Config, RngSeed, TestRunner};
fn main() {
    let n: usize = std::env::args().nth(1).and_then(|s| s.parse().ok()).unwrap_or(2000);
    let mut runner = TestRunner::new(Config { rng_seed: RngSeed::Fixed(1), failure_persistence: None, ..Config::default() });
    let strat = lexing_defs();
    let (mut acc, mut rej, mut loops, mut shown) = (0, 0, 0, 0);
    for _ in 0..n {
        let def = strat.new_tree(&mut runner).unwrap().current();
        match prepare(&def) {
            Ok(p) => {
                acc += 1;
                if p.graph.states[p.graph.root].normal.iter().any(|(_, next)| *next == p.graph.root) {
                    loops += 1;
                    if shown < 2 {
                        shown += 1;
                        println!("{}", model::prep::render(&def));
                    }
                }
            }
            Err(_) => rej += 1,
        }
    }
    println!("accepted {acc} rejected {rej} root-loops {loops}");
}
