//! Harvested family (debug aid): which definitions of the repository are found, which are usable, how large they are.
use model::prep::{prepare, PrepError};
fn main() {
    for h in model::harvest::harvest() {
        let r = match prepare(&h.def) {
            Ok(p) => format!("ok  {:4} states {:3} leaves twin-eligible={}", p.graph.states.len(), h.def.n_leaves(), h.def.utf8),
            Err(PrepError::Rejected(e, _)) => format!("REJECTED {}", e.first().map(|s| s.chars().take(100).collect::<String>()).unwrap_or_default()),
            Err(PrepError::Panic(m)) => format!("PANIC {m}"),
            Err(PrepError::NoReference(m)) => format!("NOREF {}", m.chars().take(100).collect::<String>()),
            Err(PrepError::Harness(m)) => format!("HARNESS {m}"),
        };
        println!("{:70} reduced={:2} {r}", h.origin, h.reduced);
    }
}
