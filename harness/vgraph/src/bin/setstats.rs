//! Emitter-path statistics of a generated subject set (debug aid): how many subjects use each path.
use model::prep::prepare;
use model::set::SubjectSet;
fn main() {
    let path = std::env::args().nth(1).unwrap_or_else(|| "/verif/work/subjects/runner/defs.json".into());
    let set: SubjectSet = serde_json::from_str(&std::fs::read_to_string(path).unwrap()).unwrap();
    let keys = [("except `&& byte !=`", "byte !="), ("LUT bit test in a fork", "[byte as :: core :: primitive :: usize] &"), ("jump table", "const TABLE"), ("fast loop", "_fast_loop ! (lex"), ("end-of-input edge (offset += 1 in eoi branch)", "is_prefix"), ("late accept `end (offset - 1)`", "lex . end (offset - 1)"), ("early accept `end (offset)`", "lex . end (offset) ;")];
    let mut counts = vec![0usize; keys.len()];
    let mut fam = std::collections::BTreeMap::new();
    let mut states = 0;
    let mut root_loops = 0;
    for sd in &set.defs {
        *fam.entry(sd.family.clone()).or_insert(0usize) += 1;
        let Ok(p) = prepare(&sd.def) else { continue };
        states += p.graph.states.len();
        if p.graph.states[p.graph.root].normal.iter().any(|(_, next)| *next == p.graph.root) {
            root_loops += 1;
        }
        for (i, (_, k)) in keys.iter().enumerate() {
            if p.output.contains(k) {
                counts[i] += 1;
            }
        }
    }
    println!("{} subjects {:?}, {} graph states, {} with a root that loops on itself", set.defs.len(), fam, states, root_loops);
    for (i, (n, _)) in keys.iter().enumerate() {
        println!("  {:55} {}", n, counts[i]);
    }
}
