mod lexprops;

use model::run::Args;

fn main() {
    let args = Args::parse();
    let code = match args.prop.as_str() {
        "C01" | "C02" | "C03" => lexprops::main(&args),
        other => {
            eprintln!("unknown property {other}");
            2
        }
    };
    std::process::exit(code);
}
