mod c04;
mod c08;
mod c09;
mod c10;
mod c11;
mod c16;
mod clicheck;
mod c18;
pub mod c19;
mod c19p;
mod lexprops;

use model::run::Args;

/// A derive call that does not return within 90 s is non-termination of the derive: a C19 violation
/// (with the source as replay) when C19 is being checked, exit 2 (inconclusive) otherwise.
fn start_derive_watchdog(args: &Args) {
    use std::sync::atomic::Ordering;
    let prop = args.prop.clone();
    let replay_dir = args.replay_dir.clone();
    std::thread::spawn(move || {
        let mut last = (model::prep::DERIVE_CALLS.load(Ordering::Relaxed), std::time::Instant::now());
        loop {
            std::thread::sleep(std::time::Duration::from_secs(3));
            let now = model::prep::DERIVE_CALLS.load(Ordering::Relaxed);
            if now != last.0 {
                last = (now, std::time::Instant::now());
                continue;
            }
            if model::prep::DERIVE_IN_FLIGHT.load(Ordering::Relaxed) == 0 {
                // nothing is being derived: other long work (DFA builds, cargo, CLI runs) is not a derive hang
                last = (now, std::time::Instant::now());
                continue;
            }
            if now == 0 || last.1.elapsed().as_secs() < 90 {
                continue;
            }
            // the same derive call has been pending for 90 s (cases that do other long work between derives
            // keep making derive calls, so this is the derive itself)
            let src = model::prep::DERIVE_CURRENT.lock().ok().and_then(|c| c.clone()).unwrap_or_default();
            if prop.starts_with("C19") {
                model::run::report_violation("C19", &replay_dir, &serde_json::json!({"property": "C19", "tier": "G", "source": src, "fragments_ok": false,
                    "findings": [{"property": "C19", "what": "the derive did not return within 90 s on this input (non-termination)"}]}));
                std::process::exit(1);
            }
            eprintln!("watchdog: a derive call has been pending for 90 s; inconclusive for {prop}\n{src}");
            std::process::exit(2);
        }
    });
}

fn main() {
    let args = Args::parse();
    start_derive_watchdog(&args);
    let code = match args.prop.as_str() {
        "C01" | "C02" | "C03" => lexprops::main(&args),
        "C04" | "C12" => c04::main(&args),
        "C08" => c08::main(&args),
        "C09" => c09::main(&args),
        "C10" => c10::main(&args),
        "C11" => c11::main(&args),
        "C16" => c16::main(&args),
        "C17" => clicheck::main_c17(&args),
        "C18" => c18::main(&args),
        "C19" => c19::main(&args),
        "C19P" => c19p::main(&args),
        other => {
            eprintln!("unknown property {other}");
            2
        }
    };
    std::process::exit(code);
}
