mod c04;
mod c08;
mod c09;
mod c10;
mod c11;
mod c16;
mod clicheck;
mod c18;
pub mod c19;
mod c19p;
mod lexprops;

use model::run::Args;

fn main() {
    let args = Args::parse();
    let code = match args.prop.as_str() {
        "C01" | "C02" | "C03" => lexprops::main(&args),
        "C04" | "C12" => c04::main(&args),
        "C08" => c08::main(&args),
        "C09" => c09::main(&args),
        "C10" => c10::main(&args),
        "C11" => c11::main(&args),
        "C16" => c16::main(&args),
        "C17" => clicheck::main_c17(&args),
        "C18" => c18::main(&args),
        "C19" => c19::main(&args),
        "C19P" => c19p::main(&args),
        other => {
            eprintln!("unknown property {other}");
            2
        }
    };
    std::process::exit(code);
}
