mod c08;
mod c09;
mod lexprops;

use model::run::Args;

fn main() {
    let args = Args::parse();
    let code = match args.prop.as_str() {
        "C01" | "C02" | "C03" => lexprops::main(&args),
        "C08" => c08::main(&args),
        "C09" => c09::main(&args),
        other => {
            eprintln!("unknown property {other}");
            2
        }
    };
    std::process::exit(code);
}
