//! C04 / C12 acceptance clause: a str-mode definition is accepted only if none of its patterns or
//! subpatterns can match text that is not valid UTF-8. For every generated definition the derive
//! accepts in str mode, each pattern's reference DFA is walked in product with a UTF-8 validator: a
//! match flagged while the validator is mid-character (or after an invalid byte) is a counterexample.

use std::collections::{HashMap, VecDeque};

use proptest::collection::vec;
use proptest::prelude::*;
use proptest::sample::select;
use regex_automata::dfa::Automaton;
use serde_json::json;

use model::gen::{def_strategy, GenCfg};
use model::prep::derive_def;
use model::reference::{pattern_regex, RefDfa};
use model::run::{drive, report_violation, Args, DriveResult, Run};
use model::spec::{DefSpec, LitSpec, PatSpec, SubSpec};
use model::{fnv, show};

/// UTF-8 validator: 0 = at a char boundary, 1..=7 = inside a char, 8 = invalid
fn vstep(v: u8, b: u8) -> u8 {
    match v {
        0 => match b {
            0x00..=0x7F => 0,
            0xC2..=0xDF => 1,
            0xE0 => 4,
            0xE1..=0xEC | 0xEE..=0xEF => 2,
            0xED => 5,
            0xF0 => 6,
            0xF1..=0xF3 => 3,
            0xF4 => 7,
            _ => 8,
        },
        1 => if (0x80..=0xBF).contains(&b) { 0 } else { 8 },
        2 => if (0x80..=0xBF).contains(&b) { 1 } else { 8 },
        3 => if (0x80..=0xBF).contains(&b) { 2 } else { 8 },
        4 => if (0xA0..=0xBF).contains(&b) { 1 } else { 8 },
        5 => if (0x80..=0x9F).contains(&b) { 1 } else { 8 },
        6 => if (0x90..=0xBF).contains(&b) { 2 } else { 8 },
        7 => if (0x80..=0x8F).contains(&b) { 2 } else { 8 },
        _ => 8,
    }
}

/// A string the pattern matches that is not valid UTF-8, if any.
pub fn non_utf8_witness(d: &RefDfa) -> Option<Vec<u8>> {
    let mut seen: HashMap<(usize, u8), Option<((usize, u8), u8)>> = HashMap::new();
    let mut q = VecDeque::new();
    seen.insert((0, 0), None);
    q.push_back((0usize, 0u8));
    let witness = |seen: &HashMap<(usize, u8), Option<((usize, u8), u8)>>, mut k: (usize, u8)| {
        let mut w = Vec::new();
        while let Some(Some((p, b))) = seen.get(&k) {
            w.push(*b);
            k = *p;
        }
        w.reverse();
        w
    };
    while let Some((si, v)) = q.pop_front() {
        let s = d.ids[si];
        if v != 0 && d.dfa.is_match_state(d.dfa.next_eoi_state(s)) {
            return Some(witness(&seen, (si, v)));
        }
        for b in 0..=255u8 {
            let t = d.dfa.next_state(s, b);
            if v != 0 && d.dfa.is_match_state(t) {
                return Some(witness(&seen, (si, v)));
            }
            if d.dfa.is_dead_state(t) {
                continue;
            }
            let key = (d.idx(t), vstep(v, b));
            if !seen.contains_key(&key) {
                seen.insert(key, Some(((si, v), b)));
                q.push_back(key);
            }
        }
    }
    None
}

fn strategy() -> BoxedStrategy<DefSpec> {
    // generated with byte-mode items allowed, then declared str-mode
    let base = prop_oneof![
        3 => def_strategy(GenCfg { utf8: false, unicode: true, looks: false, byte_items: true, flags: true, max_depth: 3 }),
        2 => def_strategy(GenCfg { utf8: false, unicode: false, looks: true, byte_items: true, flags: false, max_depth: 2 }),
        1 => def_strategy(GenCfg { utf8: true, unicode: true, looks: false, byte_items: false, flags: true, max_depth: 3 }),
    ];
    let byte_lit = select(vec![
        &b"\xC3\xA9"[..], b"\xE6\x97\xA5+", b"\xFF", b"a\x80", b"[\\x00-\\x7f]+", b"\xC3", b"(?:\xC3\xA9|\xC3)", b"\xF0\x9F\x98\x80", b"\xED\xA0\x80", b"\xC0\xAF", b"ab", b"(?i)k",
    ]);
    let sub = select(vec![
        ("u1", LitSpec::str("[a-z]+")),
        ("u2", LitSpec::str("(?-u:[\\x80-\\xBF])")),
        ("u3", LitSpec::str("(?s-u:.)")),
        ("b1", LitSpec::bytes(b"\xC3\xA9".to_vec())),
        ("b2", LitSpec::bytes(b"\\xFF".to_vec())),
        ("b3", LitSpec::bytes(b"[^a]".to_vec())),
        ("b4", LitSpec::bytes(b"[a-c]x".to_vec())),
        ("u4", LitSpec::str("(?-u:\\xC3)\\xA9")),
    ]);
    (base, vec((byte_lit, any::<bool>(), any::<bool>()), 0..=2), vec((sub, prop::bool::weighted(0.6)), 0..=2), vec(20usize..40, 4))
        .prop_map(|(mut def, blits, subs, prios)| {
            def.utf8 = true;
            for (i, (bl, as_token, as_skip)) in blits.into_iter().enumerate() {
                let mut p = if as_token && !bl.contains(&b'[') && !bl.contains(&b'(') && !bl.contains(&b'+') { PatSpec::token(LitSpec::bytes(bl.to_vec())) } else { PatSpec::regex(LitSpec::bytes(bl.to_vec())) };
                p.priority = Some(prios[i % prios.len()] + i);
                // byte-string items also with ignore(case): ASCII-only folding, still bytes
                p.ignore_case = (prios[i % prios.len()] + i) % 3 == 0;
                if as_skip && p.kind == model::spec::PatKind::Regex {
                    def.skips.push(p);
                } else {
                    def.variants.push(vec![p]);
                }
            }
            let mut names = std::collections::BTreeSet::new();
            for (j, ((name, lit), referenced)) in subs.into_iter().enumerate() {
                if !names.insert(name) {
                    continue;
                }
                def.subpatterns.push(SubSpec { name: name.to_string(), lit: lit.clone(), inlined: None });
                if referenced {
                    let mut p = PatSpec::regex(LitSpec::str(format!("<(?&{name})>")));
                    let body = lit.as_regex().0;
                    p.inlined = Some(LitSpec::str(format!("<(?{}:{body})>", if lit.bytes { "-u" } else { "u" })));
                    p.priority = Some(60 + j);
                    def.variants.push(vec![p]);
                }
            }
            def
        })
        .boxed()
}

fn check(def: &DefSpec, run: &mut Run) -> Result<(), String> {
    let d = derive_def(def);
    run.eval(1);
    if d.panic.is_some() {
        run.count("derive_panicked(C19 business)", 1);
        return Ok(());
    }
    let byteish = d.rust.contains("(?-u") || d.rust.contains("(?s-u") || d.rust.contains("b\"") || d.rust.contains("\\\\x");
    if !d.errors.is_empty() {
        run.count("rejected", 1);
        if d.errors.iter().any(|m| m.contains("can match invalid UTF-8")) {
            run.count("rejected_for_invalid_utf8", 1);
        } else if run.prop == "C12" && !d.errors.iter().any(|m| m.contains("UTF-8")) {
            // rejected for a reason that has nothing to do with UTF-8: the byte-mode rendering must be rejected as well
            let mut twin = def.clone();
            twin.utf8 = false;
            let dt = derive_def(&twin);
            if dt.panic.is_none() && dt.errors.is_empty() {
                return Err(format!("definition accepted with utf8 = false is rejected in str mode for a reason unrelated to UTF-8: {:?}", d.errors));
            }
            run.count("rejected_in_both_modes", 1);
        }
        return Ok(());
    }
    run.count("accepted", 1);
    if byteish {
        run.count("accepted_with_byte_level_items", 1);
        run.nontrivial(fnv(d.rust.as_bytes()));
    }
    run.sample(|| json!({"definition": d.rust, "accepted": true}));
    if run.prop == "C12" {
        // switching an accepted str-mode definition to utf8 = false must keep it acceptable
        let mut twin = def.clone();
        twin.utf8 = false;
        let dt = derive_def(&twin);
        if dt.panic.is_none() && !dt.errors.is_empty() {
            return Err(format!("definition accepted in str mode is rejected with utf8 = false: {:?}", dt.errors));
        }
        // same patterns, same priorities: the mode switch changes nothing else about the definition
        if let (Some(g), Some(gt)) = (&d.graph, &dt.graph) {
            let key = |g: &logos_codegen::verif::GraphDump| {
                let mut v: Vec<(String, usize)> = g.leaves.iter().map(|l| (l.source.clone(), l.priority)).collect();
                v.sort();
                v
            };
            let (a, b) = (key(g), key(gt));
            if a != b {
                let diff: Vec<_> = a.iter().zip(b.iter()).filter(|(x, y)| x != y).take(3).collect();
                return Err(format!("the patterns of the definition get different priorities in str mode and with utf8 = false: {diff:?}"));
            }
            run.count("leaf_priorities_equal_in_both_modes", 1);
        }
    }
    // every pattern
    for (p, variant) in def.leaves() {
        let is_skip = variant.is_none();
        let Some((text, unicode, icase)) = pattern_regex(p, is_skip) else {
            if std::str::from_utf8(&p.lit.value()).is_err() {
                return Err(format!("str-mode definition accepted although the literal token {} is not valid UTF-8", p.lit.rust()));
            }
            continue;
        };
        let Ok(dfa) = RefDfa::new(&text, unicode, icase) else {
            run.count("reference_build_failed", 1);
            continue;
        };
        if let Some(w) = non_utf8_witness(&dfa) {
            return Err(format!("str-mode definition accepted although the pattern {} matches the invalid UTF-8 string {}", p.lit.rust(), show(&w)));
        }
    }
    // every subpattern, referenced or not
    for sp in &def.subpatterns {
        let (body, unicode) = sp.lit.as_regex();
        let text = format!("(?{}:{body})", if unicode { "u" } else { "-u" });
        // nested references are not generated in this family
        let Ok(dfa) = RefDfa::new(&text, true, false) else { continue };
        if let Some(w) = non_utf8_witness(&dfa) {
            return Err(format!("str-mode definition accepted although the subpattern {} = {} matches the invalid UTF-8 string {}", sp.name, sp.lit.rust(), show(&w)));
        }
    }
    Ok(())
}

pub fn main(args: &Args) -> i32 {
    let prop: &'static str = if args.prop == "C12" { "C12" } else { "C04" };
    let mut run = Run::new(
        prop,
        &args.tier,
        args.seed,
        "acceptance clause: proptest str-mode definitions whose patterns mix Unicode items with byte-level items ((?-u:..) classes, negated byte classes, (?s-u:.), \\xNN, byte-string literals and regexes holding valid and invalid UTF-8, str and byte-string subpatterns, referenced and unreferenced); for every definition the derive accepts, each pattern's and subpattern's reference DFA is walked in product with a UTF-8 validator (a match while mid-character / after an invalid byte = counterexample string); evaluation = one definition; non-trivial = distinct accepted definitions containing a byte-level item",
    );
    run.assumptions = vec!["regex-automata dense DFA of the pattern text is the pattern's language".into()];
    if let Some(path) = &args.replay {
        let v: serde_json::Value = serde_json::from_str(&std::fs::read_to_string(path).unwrap()).unwrap();
        let def: DefSpec = serde_json::from_value(v["def"].clone()).unwrap();
        let mut scratch = Run::new(prop, "quick", 0, "");
        return match check(&def, &mut scratch) {
            Ok(()) => {
                println!("replay: no violation of {prop}");
                0
            }
            Err(m) => {
                println!("replay: {m}");
                println!("VIOLATION property={prop} replay={}", path.display());
                1
            }
        };
    }
    // harvested family: the str-mode definitions that ship with the repository (incl. the must-fail test data)
    for h in model::harvest::harvest() {
        if !h.def.utf8 {
            continue;
        }
        run.count("harvested_defs", 1);
        if let Err(msg) = check(&h.def, &mut run) {
            run.violations = 1;
            report_violation(prop, &args.replay_dir, &json!({"property": prop, "tier": "G", "origin": h.origin, "def": h.def, "rendered_rust": model::prep::render(&h.def), "findings": [{"property": prop, "what": msg}]}));
            run.write_evidence(&args.evidence);
            return 1;
        }
    }
    let cases = if args.cases > 0 { args.cases } else if args.thorough() { 40000 } else { 2500 };
    let res = drive(&strategy(), cases, args.seed ^ 0xC04, 600, &mut run, |d, run| check(d, run));
    let code = match res {
        DriveResult::Pass => 0,
        DriveResult::Fail(def) => {
            let mut scratch = Run::new(prop, "quick", 0, "");
            let msg = check(&def, &mut scratch).err().unwrap_or_default();
            run.violations = 1;
            report_violation(prop, &args.replay_dir, &json!({"property": prop, "tier": "G", "def": def, "rendered_rust": model::prep::render(&def), "findings": [{"property": prop, "what": msg}]}));
            1
        }
        DriveResult::Abort(m) => {
            eprintln!("aborted: {m}");
            2
        }
    };
    run.write_evidence(&args.evidence);
    code
}
