//! C18: attribute arguments in any order. All permutations of the named arguments of #[token] /
//! #[regex] / #[logos(skip(...))] and dependency-respecting permutations of the items of a combined
//! #[logos(...)] attribute must be accepted alike and give the same implementation as the
//! canonical order.

use proptest::prelude::*;
use proptest::sample::select;
use serde_json::json;

use model::prep::{derive_rust, normalize_tokens, DeriveOut};
use model::run::{drive, report_violation, Args, DriveResult, Run};
use model::fnv;

#[derive(Clone, Debug)]
struct AttrCase {
    /// "token" | "regex" | "skip"
    form: &'static str,
    literal: &'static str,
    positional_cb: Option<&'static str>,
    named: Vec<String>,
    /// combined #[logos(...)] items: (text, is_skip, is_subpattern)
    logos_items: Vec<(String, bool, bool)>,
    perm_seed: u64,
    /// enum T<'a, G> with a variant holding G and one holding &'a str (items `type G = ..`, `lifetime = ..`)
    generic: bool,
    /// named arguments written without blanks around `=` (`callback=|lex| ..`, `priority=3`): the same tokens, glued
    glue: bool,
}

fn permutations<T: Clone>(v: &[T], limit: usize, seed: u64) -> Vec<Vec<T>> {
    // all permutations when <= limit, otherwise a deterministic sample
    let n = v.len();
    let mut idx: Vec<usize> = (0..n).collect();
    let mut out = Vec::new();
    fn heap(k: usize, a: &mut Vec<usize>, out: &mut Vec<Vec<usize>>, limit: usize) {
        if out.len() >= limit {
            return;
        }
        if k == 1 {
            out.push(a.clone());
            return;
        }
        heap(k - 1, a, out, limit);
        for i in 0..k - 1 {
            if k % 2 == 0 {
                a.swap(i, k - 1);
            } else {
                a.swap(0, k - 1);
            }
            heap(k - 1, a, out, limit);
        }
    }
    let total: usize = (1..=n).product();
    if total <= limit {
        let mut all = Vec::new();
        heap(n.max(1), &mut idx, &mut all, usize::MAX);
        for p in all {
            out.push(p.iter().map(|&i| v[i].clone()).collect());
        }
    } else {
        let mut s = seed | 1;
        for _ in 0..limit {
            let mut p: Vec<usize> = (0..n).collect();
            for i in (1..n).rev() {
                s ^= s << 13;
                s ^= s >> 7;
                s ^= s << 17;
                p.swap(i, (s % (i as u64 + 1)) as usize);
            }
            out.push(p.iter().map(|&i| v[i].clone()).collect());
        }
    }
    out
}

fn render(case: &AttrCase, named: &[String], items: &[(String, bool, bool)]) -> String {
    let mut s = String::from("#[derive(Logos)]\n");
    let mut args = String::from(case.literal);
    if let Some(cb) = case.positional_cb {
        args.push_str(", ");
        args.push_str(cb);
    }
    for n in named {
        args.push_str(", ");
        if case.glue {
            args.push_str(&n.replacen(" = ", "=", 1));
        } else {
            args.push_str(n);
        }
    }
    let mut all_items: Vec<String> = items.iter().map(|i| i.0.clone()).collect();
    if case.form == "skip" {
        // the skip under test goes last so that relative skip order is controlled by `items`
        all_items.push(format!("skip({args})"));
    }
    if !all_items.is_empty() {
        s.push_str(&format!("#[logos({})]\n", all_items.join(", ")));
    }
    s.push_str(if case.generic { "enum T<'a, G, H> {\n" } else { "enum T {\n" });
    match case.form {
        "token" => s.push_str(&format!("    #[token({args})]\n    A,\n")),
        "regex" => s.push_str(&format!("    #[regex({args})]\n    A,\n")),
        _ => s.push_str("    #[token(\"zz\")]\n    A,\n"),
    }
    if case.generic {
        s.push_str("    #[token(\"w\", |lex| lex.slice())]\n    C(&'a str),\n    #[regex(\"v+\", make_g)]\n    D(G),\n    #[regex(\"u+\", make_h)]\n    E(H),\n");
    }
    s.push_str("    #[token(\"q\")]\n    B,\n}\n");
    s
}

fn leaf_multiset(d: &DeriveOut) -> Vec<(String, usize)> {
    let mut v: Vec<(String, usize)> = d.graph.as_ref().map(|g| g.leaves.iter().map(|l| (l.source.clone(), l.priority)).collect()).unwrap_or_default();
    v.sort();
    v
}

fn check(case: &AttrCase, run: &mut Run) -> Result<(), String> {
    let canon = derive_rust(render(case, &case.named, &case.logos_items));
    if let Some(p) = &canon.panic {
        run.count("derive_panicked(C19 business)", 1);
        let _ = p;
        return Ok(());
    }
    let canon_ok = canon.errors.is_empty();
    run.count(if canon_ok { "canonical_accepted" } else { "canonical_rejected" }, 1);
    if case.generic {
        run.count(if canon_ok { "generic_enum_accepted" } else { "generic_enum_rejected" }, 1);
    }
    let paren_not_last = |named: &[String]| named.iter().position(|n| n.starts_with("ignore(")).map(|i| i + 1 < named.len()).unwrap_or(false);
    // 1. named argument permutations
    for perm in permutations(&case.named, 24, case.perm_seed) {
        if perm == case.named {
            continue;
        }
        run.eval(1);
        if case.glue && perm.iter().any(|n| n.starts_with("callback = |")) {
            run.count("permutations_with_glued_closure_argument", 1);
        }
        if perm.len() >= 2 && paren_not_last(&perm) {
            run.nontrivial(fnv(render(case, &perm, &case.logos_items).as_bytes()));
        }
        let d = derive_rust(render(case, &perm, &case.logos_items));
        if d.panic.is_some() {
            continue;
        }
        if d.errors.is_empty() != canon_ok {
            return Err(format!(
                "argument order changes acceptance: canonical order {} but\n{}\nis {} ({:?})",
                if canon_ok { "accepted" } else { "rejected" },
                d.rust,
                if d.errors.is_empty() { "accepted" } else { "rejected" },
                d.errors
            ));
        }
        if canon_ok && normalize_tokens(&d.output) != normalize_tokens(&canon.output) {
            return Err(format!("argument order changes the generated implementation:\n{}\nvs canonical\n{}", d.rust, canon.rust));
        }
    }
    // 2. item permutations of the combined #[logos(...)] attribute (subpatterns keep their relative order)
    if case.logos_items.len() >= 2 {
        for perm in permutations(&case.logos_items, 40, case.perm_seed ^ 0x55) {
            // independent subpatterns move freely; a subpattern stays behind the ones it refers to
            let subs_in_order = true;
            // dependency-respecting: every subpattern is defined before any item that refers to it
            let names: Vec<String> = case.logos_items.iter().filter(|i| i.2).filter_map(|i| i.0.split_whitespace().nth(1).map(|n| n.to_string())).collect();
            let defined_before_use = names.iter().all(|name| {
                let def_pos = perm.iter().position(|i| i.0.starts_with(&format!("subpattern {name} =")));
                let first_use = perm.iter().position(|i| i.0.contains(&format!("(?&{name})")));
                match (def_pos, first_use) {
                    (Some(d), Some(u)) => d < u,
                    _ => true,
                }
            });
            if !subs_in_order || !defined_before_use || perm.iter().map(|i| &i.0).eq(case.logos_items.iter().map(|i| &i.0)) {
                continue;
            }
            run.eval(1);
            let d = derive_rust(render(case, &case.named, &perm));
            if d.panic.is_some() {
                continue;
            }
            let paren_mid = perm.iter().take(perm.len() - 1).any(|i| i.0.contains('('));
            if paren_mid {
                run.nontrivial(fnv(d.rust.as_bytes()));
            }
            if d.errors.is_empty() != canon_ok {
                return Err(format!(
                    "#[logos(...)] item order changes acceptance: canonical order {} but\n{}\nis {} ({:?})",
                    if canon_ok { "accepted" } else { "rejected" },
                    d.rust,
                    if d.errors.is_empty() { "accepted" } else { "rejected" },
                    d.errors
                ));
            }
            if canon_ok {
                let skips_in_order = {
                    let a: Vec<&String> = perm.iter().filter(|i| i.1).map(|i| &i.0).collect();
                    let b: Vec<&String> = case.logos_items.iter().filter(|i| i.1).map(|i| &i.0).collect();
                    a == b
                };
                if skips_in_order {
                    if normalize_tokens(&d.output) != normalize_tokens(&canon.output) {
                        return Err(format!("#[logos(...)] item order changes the generated implementation:\n{}\nvs canonical\n{}", d.rust, canon.rust));
                    }
                } else {
                    // leaf ids move with the skips: require the same leaves and the same automaton size
                    if leaf_multiset(&d) != leaf_multiset(&canon) || d.graph.as_ref().map(|g| g.states.len()) != canon.graph.as_ref().map(|g| g.states.len()) {
                        return Err(format!("#[logos(...)] item order changes the lexer:\n{}\nvs canonical\n{}", d.rust, canon.rust));
                    }
                }
            }
        }
    }
    run.sample(|| json!({"canonical": canon.rust, "accepted": canon_ok, "named_args": case.named, "logos_items": case.logos_items.iter().map(|i| &i.0).collect::<Vec<_>>()}));
    Ok(())
}

fn strategy() -> BoxedStrategy<AttrCase> {
    let form = select(vec!["token", "regex", "skip"]);
    let lit = select(vec!["\"ab\"", "\"a+\"", "b\"xy\"", "\"[a-c]x\"", "r\"k\\d\"", "\"q.*\"", "r\"w[^\\n]+\""]);
    let pos = prop::option::weighted(
        0.35,
        select(vec![
            "|lex| lex.slice().len()",
            "my_callback",
            "logos::skip",
            "|lex| lex.slice().len() < 3",
            "|lex| 1 << lex.slice().len()",
            "|lex| lex.slice().len() > 1 || lex.span().start >= 2",
            "|lex| { let n = lex.slice().len(); (n, n) }",
            "my::module::callback",
        ]),
    );
    let prio = prop::option::weighted(0.6, 0usize..20).prop_map(|p| p.map(|p| format!("priority = {p}")));
    let cb = prop::option::weighted(
        0.5,
        select(vec![
            "callback = |lex| lex.slice().len()",
            "callback = my_callback",
            "callback = |_| ()",
            "callback = |lex| lex.slice().len() < 3",
            "callback = |lex| lex.slice().len() <= lex.span().end",
            "callback = |lex| 1usize << lex.slice().len()",
            "callback = |lex| lex.slice().len() > 1 && lex.span().start < 9",
            "callback = |lex| lex.slice().parse::<u8>().ok()",
            "callback = |lex| { let n = lex.slice().len(); if n < 2 { (n, 0) } else { (0, n) } }",
            "callback = |lex| lex.slice() == \"a\"",
            "callback = |lex| -> bool { lex.slice().len() < 2 }",
        ]),
    )
    .prop_map(|c| c.map(|c| c.to_string()));
    let ign = prop::option::weighted(0.6, select(vec!["ignore(case)", "ignore(case, case)"])).prop_map(|c| c.map(|c| c.to_string()));
    let greedy = prop::option::weighted(0.4, select(vec!["allow_greedy = true", "allow_greedy = false"])).prop_map(|c| c.map(|c| c.to_string()));
    let items = proptest::collection::vec(
        select(vec![
            ("skip \" \"", true, false),
            ("skip(\"\\t\", priority = 9)", true, false),
            ("skip(\"#[a-z]*\", ignore(case))", true, false),
            ("skip(\"(?&ws)+\")", true, false),
            // the same literal twice, told apart by their named arguments only
            ("skip(\"#[a-z]*\", priority = 9)", true, false),
            ("skip(\"rem\", priority = 10)", true, false),
            ("skip(\"rem\", ignore(case))", true, false),
            ("skip(\"rem\", ignore(case))", true, false),
            ("skip(\"rem\", priority = 10)", true, false),
            ("utf8 = false", false, false),
            ("utf8 = true", false, false),
            ("error = MyError", false, false),
            ("error(MyError, my_error_cb)", false, false),
            ("error(MyError, callback = |lex| MyError::new(lex.span()))", false, false),
            ("extras = MyExtras", false, false),
            ("extras = Vec<u32>", false, false),
            ("error = Result<u8, Box<MyError>>", false, false),
            ("crate = my::logos", false, false),
            ("crate = other::logos", false, false),
            ("subpattern ws = \"[ \\n]\"", false, true),
            ("subpattern ws2 = \"(?&ws)(?&ws)\"", false, true),
            // names in every case and shape, independent of each other and one depending on another
            ("subpattern Hex = \"[0-9a-f]\"", false, true),
            ("subpattern alpha = \"[a-z]\"", false, true),
            ("subpattern word = \"(?&alpha)+\"", false, true),
            ("subpattern _Z9 = \"z\"", false, true),
            ("subpattern B = \"b|B\"", false, true),
            ("skip(\"#(?&Hex)+\")", true, false),
            ("skip \"@(?&word)\"", true, false),
            ("export_dir = \"/nonexistent/x\"", false, false),
            // only acceptable together with utf8 = false, wherever that item stands
            ("subpattern hi = b\"[\\x80-\\xff]\"", false, true),
            ("skip b\"\\xfd+\"", true, false),
            ("skip(\"(?&hi)z\")", true, false),
            ("utf8 = false", false, false),
            ("source = [u8]", false, false),
        ]),
        0..=4,
    );
    // items that only make sense on `enum T<'a, G>`
    let generic_items = prop::option::weighted(
        0.3,
        (
            select(vec!["type G = &'a str", "type G = u32", "type G = Vec<&'a str>", "type G = std::borrow::Cow<'a, str>", "type G = (&'a str, u8)"]),
            select(vec!["type H = u64", "type H = &'a [u8]", "type H = Option<u8>", "type H = String"]),
            prop::option::weighted(0.7, select(vec!["lifetime = 'a", "lifetime = none", "lifetime = 'b"])),
            prop::option::weighted(0.3, select(vec!["extras = Ctx<'a>", "error = Err<'a>", "source = [u8]"])),
        ),
    );
    // groups of items that only say something together: overlapping skips where two tie below a third (legal: the third
    // outranks them wherever they tie), and where two tie for good (rejected, in every order)
    let bundles: Vec<Vec<(&'static str, bool, bool)>> = vec![
        vec![("skip(r\"[ \\t]+\", priority = 1)", true, false), ("skip(r\"[ \\t\\r]+\", priority = 1)", true, false), ("skip(r\"[ \\t\\r\\n]+\", priority = 3)", true, false)],
        vec![("skip(\"a+\", priority = 2)", true, false), ("skip(\"[ab]+\", priority = 2)", true, false), ("skip(\"[a-c]+\", priority = 7)", true, false), ("error = MyError", false, false)],
        vec![("skip(\"x+\", priority = 4)", true, false), ("skip(\"[xy]+\", priority = 4)", true, false), ("extras = MyExtras", false, false)],
        vec![("skip(\"k+\", ignore(case), priority = 1)", true, false), ("skip(\"[k-m]+\", priority = 1)", true, false), ("skip(\"[a-zA-Z]+\", priority = 2)", true, false), ("skip \" \"", true, false)],
    ];
    let items = (items, prop::option::weighted(0.15, select(bundles))).prop_map(|(items, b)| b.unwrap_or(items));
    (form, lit, pos, prio, cb, ign, greedy, items, any::<u64>(), generic_items)
        .prop_map(|(form, literal, positional_cb, prio, cb, ign, greedy, mut items, perm_seed, generic_items)| {
            let generic = generic_items.is_some();
            if let Some((ty, ty2, lt, more)) = generic_items {
                items.truncate(2);
                items.push((ty, false, false));
                items.push((ty2, false, false));
                items.extend(lt.map(|l| (l, false, false)));
                items.extend(more.map(|m| (m, false, false)));
            }
            let mut named: Vec<String> = Vec::new();
            named.extend(prio);
            if positional_cb.is_none() {
                named.extend(cb);
            }
            // one case in eight gives allow_greedy twice with opposite values: whatever the derive makes of it, it has to make
            // the same of both orders
            if let Some(g) = &greedy {
                if (perm_seed >> 17) % 8 == 0 {
                    named.push(if g.ends_with("true") { "allow_greedy = false".to_string() } else { "allow_greedy = true".to_string() });
                }
            }
            named.extend(greedy);
            named.extend(ign);
            // drop duplicate item kinds (utf8 twice, error twice ...) and fix dependencies: ws before ws2 / (?&ws) users
            let mut seen = std::collections::BTreeSet::new();
            let mut li: Vec<(String, bool, bool)> = Vec::new();
            for (t, s, sp) in items {
                let kind = t.split(|c: char| c == ' ' || c == '(' || c == '=').next().unwrap().to_string();
                let key = if kind == "skip" || kind == "subpattern" {
                    t.to_string()
                } else if kind == "type" {
                    t.split('=').next().unwrap().trim().to_string()
                } else {
                    kind
                };
                // one case in four keeps items of a kind given twice (`crate = a, crate = b`, `extras = A, extras = B`):
                // whatever the derive makes of them, it has to make the same of every order
                if seen.insert(key) || ((perm_seed >> 11) % 4 == 0 && !li.iter().any(|i: &(String, bool, bool)| i.0 == t)) {
                    li.push((t.to_string(), s, sp));
                }
            }
            let uses_ws = li.iter().any(|i| i.0.contains("(?&ws)"));
            if uses_ws && !li.iter().any(|i| i.0.starts_with("subpattern ws =")) {
                li.insert(0, ("subpattern ws = \"[ \\n]\"".to_string(), false, true));
            }
            for (name, def) in [("Hex", "subpattern Hex = \"[0-9a-f]\""), ("word", "subpattern word = \"(?&alpha)+\""), ("alpha", "subpattern alpha = \"[a-z]\"")] {
                if li.iter().any(|i| i.0.contains(&format!("(?&{name})"))) && !li.iter().any(|i| i.0.starts_with(&format!("subpattern {name} ="))) {
                    li.insert(0, (def.to_string(), false, true));
                }
            }
            if li.iter().any(|i| i.0.contains("(?&hi)")) && !li.iter().any(|i| i.0.starts_with("subpattern hi =")) {
                li.insert(0, ("subpattern hi = b\"[\\x80-\\xff]\"".to_string(), false, true));
            }
            // byte items are only acceptable in byte mode: make the definition a byte-mode one (4 of 5 times)
            let needs_bytes = li.iter().any(|i| i.0.contains("b\"") || i.0.contains("(?&hi)"));
            if needs_bytes && perm_seed % 5 != 0 && !li.iter().any(|i| i.0 == "utf8 = false" || i.0 == "source = [u8]") {
                li.retain(|i| i.0 != "utf8 = true");
                li.push(("utf8 = false".to_string(), false, false));
            }
            // canonical order: subpatterns first (ws before ws2), then the rest as generated
            li.sort_by_key(|i| if i.0.starts_with("subpattern ws =") || i.0.starts_with("subpattern alpha =") { 0 } else if i.2 { 1 } else { 2 });
            let glue = (perm_seed >> 7) % 3 == 0;
            AttrCase { form, literal, positional_cb, named, logos_items: li, perm_seed, generic, glue }
        })
        .boxed()
}

pub fn main(args: &Args) -> i32 {
    let mut run = Run::new(
        "C18",
        &args.tier,
        args.seed,
        "proptest attribute cases: #[token]/#[regex]/#[logos(skip(...))] with literal, optional positional callback and a subset of {priority, callback =, ignore(...), allow_greedy}; every permutation of the named arguments (<= 24) and up to 40 permutations of the items of one combined #[logos(...)] attribute (skip, skip(...), utf8, error, error(...), extras, crate, subpattern, export_dir, and on a generic enum T<'a, G, H>: type G = .., type H = .., lifetime = .., source; subpatterns keep their relative order) is derived; oracle: same acceptance as the canonical order and identical generate() output (same leaves and automaton size when skips were reordered); evaluation = one permuted derive; non-trivial = distinct permutations with >= 2 named arguments where the parenthesised one is not last, or item orders with a parenthesised item not last",
    );
    if let Some(path) = &args.replay {
        let v: serde_json::Value = serde_json::from_str(&std::fs::read_to_string(path).unwrap()).unwrap();
        let a = v["canonical"].as_str().unwrap().to_string();
        let b = v["permuted"].as_str().unwrap().to_string();
        let (da, db) = (derive_rust(a), derive_rust(b));
        let same = da.errors.is_empty() == db.errors.is_empty() && (!da.errors.is_empty() || normalize_tokens(&da.output) == normalize_tokens(&db.output) || v["skips_reordered"].as_bool().unwrap_or(false));
        return if same {
            println!("replay: no violation of C18");
            0
        } else {
            println!("replay: canonical errors {:?}; permuted errors {:?}; outputs equal: {}", da.errors, db.errors, da.output == db.output);
            println!("VIOLATION property=C18 replay={}", path.display());
            1
        };
    }
    let cases = if args.cases > 0 { args.cases } else if args.thorough() { 20000 } else { 1500 };
    let res = drive(&strategy(), cases, args.seed ^ 0xC18, 500, &mut run, |c, run| check(c, run));
    let code = match res {
        DriveResult::Pass => 0,
        DriveResult::Fail(case) => {
            let mut scratch = Run::new("C18", "quick", 0, "");
            let msg = check(&case, &mut scratch).err().unwrap_or_default();
            // recover the two sources from the message for the replay file
            let canonical = render(&case, &case.named, &case.logos_items);
            let permuted = msg.split('\n').skip(1).take_while(|l| !l.starts_with("is ") && !l.starts_with("vs canonical")).collect::<Vec<_>>().join("\n") + "\n";
            run.violations = 1;
            report_violation("C18", &args.replay_dir, &json!({"property": "C18", "tier": "G", "canonical": canonical, "permuted": permuted, "skips_reordered": msg.contains("changes the lexer"), "findings": [{"property": "C18", "what": msg}]}));
            1
        }
        DriveResult::Abort(m) => {
            eprintln!("aborted: {m}");
            2
        }
    };
    run.write_evidence(&args.evidence);
    code
}
