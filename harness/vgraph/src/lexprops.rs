//! Tier G checks C01, C02, C03 (and the structural part of C03): random definitions through the
//! derive (library entry point + capture hook), the captured graph interpreted on covering + random
//! inputs, compared with the reference lexer.

use proptest::collection::vec;
use proptest::prelude::*;
use serde_json::{json, Value};

use model::cover::{covering_inputs, walk_input};
use model::gen::lexing_defs;
use model::graph::GraphLexer;
use model::judge::{judge, tiling, Finding};
use model::prep::{prepare, PrepError, Prepared};
use model::run::{drive, report_violation, Args, DriveResult, Run};
use model::spec::DefSpec;
use model::{fnv, hex, show, unhex, Item};

pub const ALPHABET: &[&[u8]] = &[
    b"a", b"b", b"c", b"x", b"0", b"1", b"-", b"_", b".", b"*", b" ", b"\n", "é".as_bytes(), "ß".as_bytes(), "λ".as_bytes(), "σ".as_bytes(),
    "ς".as_bytes(), "Σ".as_bytes(), "\u{212A}".as_bytes(), "ſ".as_bytes(), "日".as_bytes(), "😀".as_bytes(), b"A", b"k", b"s", b"z", b"9", b"e",
];
pub const BYTE_NOISE: &[&[u8]] = &[b"\x00", b"\x7f", b"\x80", b"\xC3", b"\xA9", b"\xFF", b"\xE6", b"\xF0\x9F"];

pub type Case = (DefSpec, Vec<Vec<u16>>, Vec<Vec<u8>>);

pub fn case_strategy() -> BoxedStrategy<Case> {
    (lexing_defs(), vec(vec(any::<u16>(), 0..24), 6), vec(vec(any::<u8>(), 0..12), 4)).boxed()
}

pub fn noise_input(idx: &[u8], utf8: bool) -> Vec<u8> {
    let mut out = Vec::new();
    for &i in idx {
        let n = ALPHABET.len() + if utf8 { 0 } else { BYTE_NOISE.len() };
        let k = (i as usize * n) >> 8;
        if k < ALPHABET.len() {
            out.extend_from_slice(ALPHABET[k]);
        } else {
            out.extend_from_slice(BYTE_NOISE[k - ALPHABET.len()]);
        }
    }
    out
}

pub fn inputs_for(p: &Prepared, def: &DefSpec, walks: &[Vec<u16>], noise: &[Vec<u8>], cap_states: usize, cap_inputs: usize, run: &mut Run) -> Vec<Vec<u8>> {
    let (mut inputs, cs) = covering_inputs(&p.graph, &p.reflex, def.utf8, cap_states, cap_inputs);
    run.count("cover_joint_states", cs.joint_states as u64);
    run.count("cover_inputs", cs.inputs as u64);
    if cs.capped {
        run.count("cover_capped_defs", 1);
    }
    run.count("cover_dropped_invalid_utf8", cs.dropped_invalid_utf8 as u64);
    for w in walks {
        if let Some(i) = walk_input(&p.graph, w, ALPHABET, def.utf8) {
            inputs.push(i);
        }
    }
    for n in noise {
        inputs.push(noise_input(n, def.utf8));
    }
    inputs.push(Vec::new());
    inputs
}

pub struct LexOutcome {
    pub items: Vec<Item>,
    pub skips: Vec<(usize, usize)>,
    pub ended: bool,
    pub none_again: bool,
}

pub fn lex_graph(p: &Prepared, utf8: bool, input: &[u8]) -> LexOutcome {
    let mut gl = GraphLexer::new(&p.graph, input, utf8, false);
    let (items, ended) = gl.run();
    let none_again = ended && gl.next().is_none() && gl.next().is_none();
    LexOutcome { items, skips: gl.skips.iter().map(|&(a, b, _)| (a, b)).collect(), ended, none_again }
}

/// Findings of one (definition, input) pair for `prop`.
pub fn findings_for(prop: &str, p: &Prepared, def: &DefSpec, input: &[u8], run: Option<&mut Run>, def_key: u64) -> Vec<Finding> {
    let out = lex_graph(p, def.utf8, input);
    let (mut f, st) = judge(&p.reflex, &p.prio, input, &out.items, out.ended, &|leaf| leaf);
    f.extend(tiling(input.len(), &out.items, Some(&out.skips), out.ended, out.none_again));
    if let Some(run) = run {
        run.eval(1);
        run.count("attempts", st.attempts as u64);
        run.count("error_attempts", st.err_attempts as u64);
        run.count("skip_attempts", st.skip_attempts as u64);
        run.count("ties_seen", st.ties as u64);
        let key = |tag: u8, at: usize| {
            let mut k = def_key.to_le_bytes().to_vec();
            k.push(tag);
            k.extend_from_slice(input);
            k.extend_from_slice(&at.to_le_bytes());
            fnv(&k)
        };
        match prop {
            "C01" => {
                for &a in &st.c01_nontrivial {
                    let k = key(1, a);
                    run.nontrivial(k);
                }
            }
            "C02" => {
                for &a in &st.c02_nontrivial {
                    let k = key(2, a);
                    run.nontrivial(k);
                }
            }
            _ => {
                let ends_in_skip = out.skips.iter().any(|&(_, b)| b == input.len());
                let ends_in_err = out.items.last().map(|i| i.kind.is_none() && i.end == input.len()).unwrap_or(false);
                if ends_in_skip || ends_in_err || input.is_empty() {
                    let k = key(3, 0);
                    run.nontrivial(k);
                    run.count(if ends_in_skip { "inputs_ending_in_skip" } else if ends_in_err { "inputs_ending_mid_token_or_error" } else { "empty_inputs" }, 1);
                }
            }
        }
        if !input.is_empty() {
            run.sample(|| json!({"definition": p.rust, "input": show(input), "items": out.items.iter().map(|i| json!([i.kind, i.start, i.end])).collect::<Vec<_>>(), "skipped": out.skips}));
        }
    }
    f.retain(|x| x.property == prop);
    f
}

/// Structural invariants of the captured graph (C03 structural part).
pub fn structural(p: &Prepared) -> Vec<Finding> {
    let g = &p.graph;
    let mut f = Vec::new();
    let root = &g.states[g.root];
    if root.early.is_some() || root.accept.is_some() {
        f.push(Finding { property: "C03", at: 0, what: format!("root state {} records a match (empty token possible)", g.root) });
    }
    for (i, s) in g.states.iter().enumerate() {
        for (_, n) in &s.normal {
            if *n >= g.states.len() {
                f.push(Finding { property: "C03", at: i, what: format!("state {i} has an edge to missing state {n}") });
            }
        }
        if let Some(e) = s.eoi {
            if e >= g.states.len() {
                f.push(Finding { property: "C03", at: i, what: format!("state {i} has an eoi edge to missing state {e}") });
            } else if g.states[e].eoi.is_some() {
                f.push(Finding { property: "C03", at: i, what: format!("eoi target {e} of state {i} has an eoi edge itself") });
            }
        }
    }
    f
}

fn graph_features(p: &Prepared, run: &mut Run) {
    let g = &p.graph;
    let mut jump = false;
    let mut fast = false;
    let mut early = false;
    let mut late = false;
    let mut eoi = false;
    let mut twoway = false;
    for (i, s) in g.states.iter().enumerate() {
        if s.normal.len() > 2 {
            jump = true;
        }
        if s.normal.len() == 2 {
            twoway = true;
        }
        if s.normal.iter().any(|(_, n)| *n == i) {
            fast = true;
        }
        early |= s.early.is_some();
        late |= s.accept.is_some();
        eoi |= s.eoi.is_some();
    }
    for (k, v) in [("defs_with_jump_table", jump), ("defs_with_fast_loop", fast), ("defs_with_early_accept", early), ("defs_with_late_accept", late), ("defs_with_eoi_edge", eoi), ("defs_with_two_way_fork", twoway)] {
        if v {
            run.count(k, 1);
        }
    }
    if g.leaves.iter().any(|l| l.variant.is_none()) {
        run.count("defs_with_skip", 1);
    }
}

fn replay_json(prop: &str, def: &DefSpec, rust: &str, input: &[u8], f: &[Finding]) -> Value {
    json!({"property": prop, "tier": "G", "def": def, "rendered_rust": rust, "input_hex": hex(input), "input": show(input), "findings": f})
}

pub fn run_case(prop: &str, case: &Case, run: &mut Run, caps: (usize, usize)) -> Result<(), (Vec<u8>, Vec<Finding>, String)> {
    let (def, walks, noise) = case;
    let p = match prepare(def) {
        Ok(p) => p,
        Err(PrepError::Panic(_)) => {
            run.count("derive_panicked(C19 business)", 1);
            return Ok(());
        }
        Err(PrepError::Rejected(..)) => {
            run.count("defs_rejected", 1);
            return Ok(());
        }
        Err(PrepError::NoReference(_)) => {
            run.count("defs_without_reference", 1);
            return Ok(());
        }
        Err(PrepError::Harness(m)) => panic!("harness fault: {m}\n{}", model::prep::render(def)),
    };
    run.count("defs_accepted", 1);
    if !run.frozen {
        graph_features(&p, run);
    }
    let def_key = fnv(p.rust.as_bytes());
    if prop == "C03" {
        let f = structural(&p);
        if !f.is_empty() {
            return Err((vec![], f, p.rust.clone()));
        }
    }
    let inputs = inputs_for(&p, def, walks, noise, caps.0, caps.1, run);
    for input in &inputs {
        let f = findings_for(prop, &p, def, input, Some(run), def_key);
        if !f.is_empty() {
            return Err((input.clone(), f, p.rust.clone()));
        }
    }
    Ok(())
}

pub fn main(args: &Args) -> i32 {
    let prop = args.prop.as_str();
    let rule = match prop {
        "C01" => "proptest definitions (6 families: str/bytes x ascii/unicode x look-around) x inputs = joint (graph x reference) transition cover + graph random walks + noise; evaluation = one (definition,input) lexing compared per attempt with the reference lexer; non-trivial = distinct (definition,input,attempt) where >=2 patterns have a non-empty match, or the winner has several match ends, or text beyond the match end was still viable",
        "C02" => "same generator as C01; non-trivial = distinct (definition,input,attempt) error attempts whose span is >1 byte, or ends by char-boundary rounding, or ends at end of input",
        _ => "(empty-match clause) proptest patterns generated without the non-nullable fix-up, placed alone / next to a token / as a skip: if the pattern's reference DFA reports an empty match at the start of one of 6 context strings the definition must be rejected; (runtime and structural clauses) same generator as C01 plus the empty input; non-trivial = distinct (definition,input) where the input is empty, ends in a skipped region or ends in an error/mid-token; every accepted definition is also checked for the structural invariants (root records nothing, no eoi edge after an eoi edge, edge targets exist)",
    };
    let mut run = Run::new(prop, &args.tier, args.seed, rule);
    run.assumptions = vec![
        "tier G interprets the captured graph with the semantics read off the emitter; the emitted Rust itself is judged by tier X".into(),
        "reference = per-pattern anchored dense DFA (regex-automata, MatchKind::All) / exact bytes for plain #[token]; priorities taken from the captured leaves (their values are C09's business)".into(),
        "str-mode definitions only get valid UTF-8 inputs".into(),
    ];
    if let Some(path) = &args.replay {
        return replay(prop, path);
    }
    let cases = if args.cases > 0 { args.cases } else if args.thorough() { 30000 } else { 4000 };
    let caps = if args.thorough() { (3000, 6000) } else { (400, 1200) };
    // harvested family first: the definitions that ship with the repository under test
    if harvest_part(prop, args, &mut run) != 0 {
        run.write_evidence(&args.evidence);
        return 1;
    }
    let strat = case_strategy();
    let result = drive(&strat, cases, args.seed ^ fnv(prop.as_bytes()), 400, &mut run, |case, run| {
        run_case(prop, case, run, caps).map_err(|(_, f, _)| f[0].what.clone())
    });
    let code = match result {
        DriveResult::Pass => 0,
        DriveResult::Fail(case) => {
            let r = run_case(prop, &case, &mut run, caps);
            run.frozen = false;
            match r {
                Err((input, f, rust)) => {
                    // shrink the input greedily
                    let input = shrink_input(prop, &case.0, &input);
                    let p = prepare(&case.0).ok();
                    let f2 = p.map(|p| findings_for(prop, &p, &case.0, &input, None, 0)).unwrap_or_default();
                    let f = if f2.is_empty() { f } else { f2 };
                    run.violations = 1;
                    report_violation(prop, &args.replay_dir, &replay_json(prop, &case.0, &rust, &input, &f));
                    1
                }
                Ok(()) => {
                    eprintln!("shrunk case does not reproduce");
                    2
                }
            }
        }
        DriveResult::Abort(m) => {
            eprintln!("proptest aborted: {m}");
            2
        }
    };
    let code = if code == 0 && prop == "C03" { empty_match_part(args, &mut run) } else { code };
    run.write_evidence(&args.evidence);
    code
}

/// Harvested family (model::harvest): every definition found in the repository's own tests, benches, examples and book,
/// reduced to its automaton, lexed on its covering inputs and on `rounds` sets of proptest walks / noise strings.
fn harvest_part(prop: &str, args: &Args, run: &mut Run) -> i32 {
    use proptest::strategy::ValueTree;
    use proptest::test_runner::{Config, RngSeed, TestRunner};
    let mut runner = TestRunner::new(Config { rng_seed: RngSeed::Fixed(args.seed ^ fnv(prop.as_bytes()) ^ 0x68617276), failure_persistence: None, ..Config::default() });
    let strat = (vec(vec(any::<u16>(), 0..40), 12), vec(vec(any::<u8>(), 0..16), 6));
    let rounds = if args.thorough() { 12 } else { 2 };
    let caps = if args.thorough() { (6000, 12000) } else { (800, 2400) };
    let defs = model::harvest::harvest();
    run.count("harvested_defs_found", defs.len() as u64);
    for h in &defs {
        let def = &h.def;
        let p = match prepare(def) {
            Ok(p) => p,
            Err(PrepError::Harness(m)) => panic!("harness fault: {m}\n{}", model::prep::render(def)),
            Err(_) => {
                // must-fail test data, definitions of other versions in the book, patterns outside the reference's reach
                run.count("harvested_defs_not_usable", 1);
                continue;
            }
        };
        run.count("harvested_defs_lexed", 1);
        run.count("harvested_leaves", def.n_leaves() as u64);
        run.count("harvested_graph_states", p.graph.states.len() as u64);
        let def_key = fnv(p.rust.as_bytes());
        let mut fail: Option<(Vec<u8>, Vec<Finding>)> = None;
        if prop == "C03" {
            let f = structural(&p);
            if !f.is_empty() {
                fail = Some((vec![], f));
            }
        }
        'rounds: for r in 0..rounds {
            if fail.is_some() {
                break;
            }
            let (walks, noise) = strat.new_tree(&mut runner).unwrap().current();
            // the covering set is the same in every round: only the first one lexes it
            let inputs = if r == 0 {
                inputs_for(&p, def, &walks, &noise, caps.0, caps.1, run)
            } else {
                let mut v: Vec<Vec<u8>> = walks.iter().filter_map(|w| walk_input(&p.graph, w, ALPHABET, def.utf8)).collect();
                v.extend(noise.iter().map(|n| noise_input(n, def.utf8)));
                v
            };
            for input in &inputs {
                let f = findings_for(prop, &p, def, input, Some(run), def_key);
                if !f.is_empty() {
                    fail = Some((input.clone(), f));
                    break 'rounds;
                }
            }
        }
        if let Some((input, f)) = fail {
            let input = shrink_input(prop, def, &input);
            let f2 = findings_for(prop, &p, def, &input, None, 0);
            let f = if f2.is_empty() { f } else { f2 };
            run.violations = 1;
            let mut rj = replay_json(prop, def, &p.rust, &input, &f);
            rj["origin"] = json!(h.origin);
            report_violation(prop, &args.replay_dir, &rj);
            return 1;
        }
    }
    0
}

/// C03, empty-match clause: patterns generated without the non-nullable fix-up (about a third can match
/// the empty string in some context: a*, a|, (a?)(b?), x*$, (?-u:\b) ...). Oracle: the reference DFA of
/// the pattern reports an empty match at the start of some context string; any definition
/// containing such a pattern must not be accepted.
fn empty_match_part(args: &Args, run: &mut Run) -> i32 {
    use model::gen::{ast_strategy, GenCfg};
    use model::prep::derive_def;
    use model::reference::{Matcher, RefDfa};
    use model::spec::{LitSpec, PatSpec};
    let cfgs = [
        GenCfg { utf8: false, unicode: true, looks: true, byte_items: true, flags: true, max_depth: 3 },
        GenCfg { utf8: true, unicode: true, looks: true, byte_items: false, flags: true, max_depth: 3 },
        GenCfg { utf8: true, unicode: false, looks: false, byte_items: false, flags: false, max_depth: 2 },
    ];
    let strat = (
        prop_oneof![ast_strategy(&cfgs[0]).prop_map(|a| (a, false)), ast_strategy(&cfgs[1]).prop_map(|a| (a, true)), ast_strategy(&cfgs[2]).prop_map(|a| (a, true))],
        any::<u8>(),
    );
    let cases = if args.cases > 0 { args.cases } else if args.thorough() { 40000 } else { 3000 };
    run.frozen = false;
    // every attribute form of a pattern that plainly matches the empty string: empty #[token] / #[regex] / skip literals
    // (str and byte-string), with and without ignore(case), an explicit priority, in both modes, alone and next to a token
    {
        let lits: Vec<(bool, LitSpec)> = vec![
            (true, LitSpec::str("")),
            (true, LitSpec::bytes(Vec::<u8>::new())),
            (false, LitSpec::str("")),
            (false, LitSpec::bytes(Vec::<u8>::new())),
            (false, LitSpec::str("(?i)")),
            (false, LitSpec::str("a*")),
            (false, LitSpec::str("(?x) # nothing")),
            (false, LitSpec::bytes(b"(?-u:\\xff)*".to_vec())),
        ];
        for (is_token, lit) in &lits {
            for ic in [false, true] {
                for prio in [None, Some(3usize)] {
                    for utf8 in [true, false] {
                        for shape in 0..3 {
                            if lit.bytes && utf8 && !lit.raw.is_ascii() {
                                continue;
                            }
                            if *is_token && shape == 2 {
                                continue;
                            }
                            let mut p = if *is_token { PatSpec::token(lit.clone()) } else { PatSpec::regex(lit.clone()) };
                            p.ignore_case = ic;
                            p.priority = prio;
                            let other = PatSpec::token(LitSpec::str("\u{3}\u{3}"));
                            let def = match shape {
                                0 => DefSpec { utf8, subpatterns: vec![], skips: vec![], variants: vec![vec![p]] },
                                1 => DefSpec { utf8, subpatterns: vec![], skips: vec![], variants: vec![vec![other], vec![p]] },
                                _ => DefSpec { utf8, subpatterns: vec![], skips: vec![p], variants: vec![vec![other]] },
                            };
                            let d = derive_def(&def);
                            run.eval(1);
                            run.count("empty_literal_forms", 1);
                            if d.panic.is_none() && d.errors.is_empty() {
                                run.violations = 1;
                                let msg = format!("a definition with the empty-matching pattern {} ({}ignore(case), priority {:?}, utf8 = {utf8}) is accepted", lit.rust(), if ic { "" } else { "no " }, prio);
                                report_violation("C03", &args.replay_dir, &json!({"property": "C03", "tier": "G", "empty_match": true, "def": def, "rendered_rust": model::prep::render(&def), "input_hex": "", "findings": [{"property": "C03", "what": msg}]}));
                                return 1;
                            }
                            run.nontrivial(fnv(d.rust.as_bytes()));
                        }
                    }
                }
            }
        }
    }
    let contexts: [&[u8]; 6] = [b"", b"a", b" ", b"\n", b"0", "é".as_bytes()];
    let check = |case: &((model::gen::Ast, bool), u8), run: &mut Run| -> Result<(), String> {
        let ((ast, utf8), shape) = case;
        let text = ast.text();
        let Ok(dfa) = RefDfa::new(&text, true, false) else { return Ok(()) };
        let m = Matcher::Dfa(Box::new(dfa));
        let empty_in = contexts.iter().find(|c| m.run(c, 0).empty).map(|c| c.to_vec());
        let mut p = PatSpec::regex(LitSpec::str(text.clone()));
        p.allow_greedy = true;
        // default priority, or an explicit one (the rejection must not depend on it)
        p.priority = match (shape / 3) % 4 {
            0 | 1 => None,
            2 => Some(1 + (*shape as usize % 7)),
            _ => Some(0),
        };
        // as the only pattern, next to an unrelated token, or as a skip
        let def = match shape % 3 {
            0 => DefSpec { utf8: *utf8, subpatterns: vec![], skips: vec![], variants: vec![vec![p]] },
            1 => DefSpec { utf8: *utf8, subpatterns: vec![], skips: vec![], variants: vec![vec![PatSpec::token(LitSpec::str("\u{3}\u{3}"))], vec![p]] },
            _ => DefSpec { utf8: *utf8, subpatterns: vec![], skips: vec![p], variants: vec![vec![PatSpec::token(LitSpec::str("\u{3}\u{3}"))]] },
        };
        let d = derive_def(&def);
        run.eval(1);
        if d.panic.is_some() {
            return Ok(());
        }
        if let Some(ctx) = empty_in {
            run.count("patterns_matching_empty", 1);
            run.nontrivial(fnv(d.rust.as_bytes()));
            if d.errors.is_empty() {
                return Err(format!("the pattern {text:?} matches the empty string (at the start of {}), but the definition is accepted", show(&ctx)));
            }
        } else {
            run.count("patterns_not_matching_empty", 1);
        }
        Ok(())
    };
    match drive(&strat, cases, args.seed ^ 0xC03E, 600, run, |c, run| check(c, run)) {
        DriveResult::Pass => 0,
        DriveResult::Fail(case) => {
            let mut scratch = Run::new("C03", "quick", 0, "");
            let msg = check(&case, &mut scratch).err().unwrap_or_default();
            let ((ast, utf8), shape) = &case;
            let mut p = PatSpec::regex(LitSpec::str(ast.text()));
            p.allow_greedy = true;
            p.priority = match (shape / 3) % 4 {
                0 | 1 => None,
                2 => Some(1 + (*shape as usize % 7)),
                _ => Some(0),
            };
            let def = match shape % 3 {
                0 => DefSpec { utf8: *utf8, subpatterns: vec![], skips: vec![], variants: vec![vec![p]] },
                1 => DefSpec { utf8: *utf8, subpatterns: vec![], skips: vec![], variants: vec![vec![PatSpec::token(LitSpec::str("\u{3}\u{3}"))], vec![p]] },
                _ => DefSpec { utf8: *utf8, subpatterns: vec![], skips: vec![p], variants: vec![vec![PatSpec::token(LitSpec::str("\u{3}\u{3}"))]] },
            };
            run.violations = 1;
            report_violation("C03", &args.replay_dir, &json!({"property": "C03", "tier": "G", "empty_match": true, "def": def, "rendered_rust": model::prep::render(&def), "input_hex": "", "findings": [{"property": "C03", "what": msg}]}));
            1
        }
        DriveResult::Abort(m) => {
            eprintln!("aborted: {m}");
            2
        }
    }
}

fn shrink_input(prop: &str, def: &DefSpec, input: &[u8]) -> Vec<u8> {
    let Ok(p) = prepare(def) else { return input.to_vec() };
    if prop == "C03" && !structural(&p).is_empty() {
        return vec![];
    }
    let fails = |i: &[u8]| -> bool {
        if def.utf8 && std::str::from_utf8(i).is_err() {
            return false;
        }
        !findings_for(prop, &p, def, i, None, 0).is_empty()
    };
    let mut cur = input.to_vec();
    if !fails(&cur) {
        return cur;
    }
    let mut progress = true;
    while progress {
        progress = false;
        let mut i = 0;
        while i < cur.len() {
            for width in [4usize, 3, 2, 1] {
                if i + width <= cur.len() {
                    let mut c = cur.clone();
                    c.drain(i..i + width);
                    if fails(&c) {
                        cur = c;
                        progress = true;
                        break;
                    }
                }
            }
            i += 1;
        }
    }
    cur
}

pub fn replay(prop: &str, path: &std::path::Path) -> i32 {
    let v: Value = serde_json::from_str(&std::fs::read_to_string(path).expect("read replay")).expect("replay json");
    let def: DefSpec = serde_json::from_value(v["def"].clone()).expect("def");
    let input = unhex(v["input_hex"].as_str().unwrap_or(""));
    if v.get("empty_match").is_some() {
        let d = model::prep::derive_def(&def);
        return if d.errors.is_empty() && d.panic.is_none() {
            println!("replay: definition with an empty-matching pattern is accepted");
            println!("VIOLATION property={prop} replay={}", path.display());
            1
        } else {
            println!("replay: no violation of {prop}");
            0
        };
    }
    match prepare(&def) {
        Ok(p) => {
            let mut f = findings_for(prop, &p, &def, &input, None, 0);
            if prop == "C03" {
                f.extend(structural(&p));
            }
            if f.is_empty() {
                println!("replay: no violation of {prop} on {}", path.display());
                0
            } else {
                for x in &f {
                    println!("replay: {}", x.what);
                }
                println!("VIOLATION property={prop} replay={}", path.display());
                1
            }
        }
        Err(_) => {
            println!("replay: definition is not accepted any more; no violation of {prop}");
            0
        }
    }
}
