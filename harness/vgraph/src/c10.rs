//! C10: literal tokens verbatim; ignore(case) = regex (?i). The reference for a plain token is exact
//! byte comparison (no regex involved); with ignore(case) it is the regex crate's language of the
//! harness-escaped literal / of the pattern under the case-insensitive flag.

use serde_json::json;

use model::gen::literal_defs;
use model::prep::{derive_def, prepare, PrepError, Prepared};
use model::run::{drive, report_violation, Args, DriveResult, Run};
use model::spec::{DefSpec, PatKind};
use model::{fnv, hex, show, unhex};

use crate::lexprops::{findings_for, inputs_for};

const FOLDS: &[(&str, &[&str])] = &[
    ("k", &["K", "\u{212A}"]),
    ("K", &["k", "\u{212A}"]),
    ("\u{212A}", &["k", "K"]),
    ("s", &["S", "ſ"]),
    ("S", &["s", "ſ"]),
    ("ſ", &["s", "S"]),
    ("σ", &["ς", "Σ"]),
    ("ς", &["σ", "Σ"]),
    ("Σ", &["σ", "ς"]),
    ("ß", &["ẞ", "SS", "ss"]),
    ("i", &["I", "İ", "ı"]),
    ("I", &["i", "İ", "ı"]),
    ("İ", &["i", "I", "ı"]),
    ("ı", &["i", "I", "İ"]),
    ("é", &["É", "e\u{301}"]),
    ("É", &["é"]),
    ("ǅ", &["Ǆ", "ǆ"]),
];

/// Case-toggled variants of a literal: whole-string upper/lower, per-char toggles, special folds.
fn case_variants(w: &[u8]) -> Vec<Vec<u8>> {
    let mut out = vec![w.to_vec()];
    if let Ok(s) = std::str::from_utf8(w) {
        out.push(s.to_uppercase().into_bytes());
        out.push(s.to_lowercase().into_bytes());
        let chars: Vec<char> = s.chars().collect();
        for i in 0..chars.len() {
            let mut alts: Vec<String> = Vec::new();
            let c = chars[i];
            alts.push(c.to_uppercase().collect());
            alts.push(c.to_lowercase().collect());
            let cs = c.to_string();
            for (k, v) in FOLDS {
                if *k == cs {
                    alts.extend(v.iter().map(|x| x.to_string()));
                }
            }
            for a in alts {
                let mut t: String = chars[..i].iter().collect();
                t.push_str(&a);
                t.extend(chars[i + 1..].iter());
                out.push(t.into_bytes());
            }
        }
    } else {
        // ASCII-only toggles on raw bytes
        let up: Vec<u8> = w.iter().map(|b| b.to_ascii_uppercase()).collect();
        let lo: Vec<u8> = w.iter().map(|b| b.to_ascii_lowercase()).collect();
        out.push(up);
        out.push(lo);
        for i in 0..w.len() {
            let mut t = w.to_vec();
            t[i] ^= 0x20;
            out.push(t);
        }
    }
    // each variant also followed by more text and embedded twice
    let mut more = Vec::new();
    for v in &out {
        let mut a = v.clone();
        a.extend_from_slice(v);
        more.push(a);
        let mut b = v.clone();
        b.push(b'a');
        more.push(b);
    }
    out.extend(more);
    out.sort();
    out.dedup();
    out
}

/// a shortest string fully matched by the (case-sensitive) pattern: breadth-first search over its reference DFA
fn shortest_witness(d: &model::reference::RefDfa) -> Option<Vec<u8>> {
    use regex_automata::dfa::Automaton;
    let n = d.ids.len();
    let mut prev: Vec<Option<(usize, u8)>> = vec![None; n];
    let mut seen = vec![false; n];
    let mut q = std::collections::VecDeque::new();
    seen[0] = true;
    q.push_back(0usize);
    let path = |prev: &Vec<Option<(usize, u8)>>, mut i: usize, last: Option<u8>| {
        let mut v = Vec::new();
        if let Some(b) = last {
            v.push(b);
        }
        while let Some((j, b)) = prev[i] {
            v.push(b);
            i = j;
        }
        v.reverse();
        v
    };
    while let Some(i) = q.pop_front() {
        let s = d.ids[i];
        if d.dfa.is_match_state(d.dfa.next_eoi_state(s)) && i != 0 {
            return Some(path(&prev, i, None));
        }
        for b in 0..=255u8 {
            let t = d.dfa.next_state(s, b);
            if d.dfa.is_dead_state(t) {
                continue;
            }
            let j = d.idx(t);
            if !seen[j] {
                seen[j] = true;
                prev[j] = Some((i, b));
                q.push_back(j);
            }
        }
    }
    None
}

fn extra_inputs(def: &DefSpec) -> Vec<Vec<u8>> {
    let mut out = Vec::new();
    for (p, variant) in def.leaves() {
        if p.kind == PatKind::Token {
            out.extend(case_variants(&p.lit.value()));
        } else if p.ignore_case {
            // case-toggled variants of a shortest match of the pattern as written (references inlined)
            if let Some((text, unicode, _)) = model::reference::pattern_regex(p, variant.is_none()) {
                if let Ok(d) = model::reference::RefDfa::new(&text, unicode, false) {
                    if let Some(w) = shortest_witness(&d) {
                        if w.len() <= 24 {
                            out.extend(case_variants(&w));
                        }
                    }
                }
            }
        }
    }
    if def.utf8 {
        out.retain(|v| std::str::from_utf8(v).is_ok());
    }
    out
}

/// "nothing else changes": leaf metadata of the ignore(case) definition equals that of its flag-less twin
fn twin_check(def: &DefSpec, p: &Prepared) -> Result<(), String> {
    if !def.leaves().iter().any(|(x, _)| x.ignore_case) {
        return Ok(());
    }
    let mut twin = def.clone();
    for s in twin.skips.iter_mut() {
        s.ignore_case = false;
    }
    for v in twin.variants.iter_mut() {
        for x in v.iter_mut() {
            x.ignore_case = false;
        }
    }
    let d = derive_def(&twin);
    let Some(g) = d.graph else { return Ok(()) };
    if g.leaves.len() != p.graph.leaves.len() {
        return Ok(());
    }
    for (i, (a, b)) in p.graph.leaves.iter().zip(g.leaves.iter()).enumerate() {
        if a.priority != b.priority || a.variant != b.variant || a.has_callback != b.has_callback || a.has_value != b.has_value {
            return Err(format!("ignore(case) changed leaf {i} beyond its language: with flag {a:?}, without {b:?}"));
        }
    }
    Ok(())
}

fn check(def: &DefSpec, run: &mut Run) -> Result<(), (Vec<u8>, String)> {
    let single_plain = def.n_leaves() == 1 && def.skips.is_empty();
    let p = match prepare(def) {
        Ok(p) => p,
        Err(PrepError::Panic(_)) => {
            run.count("derive_panicked(C19 business)", 1);
            return Ok(());
        }
        Err(PrepError::Rejected(errs, _)) => {
            let only = &def.variants[0][0];
            if single_plain && only.kind == PatKind::Token {
                return Err((vec![], format!("a definition with the single literal token {} is rejected: {errs:?}", only.lit.rust())));
            }
            run.count("defs_rejected", 1);
            // a single pattern cannot tie with anything: the flag alone must not make it unacceptable
            if def.n_leaves() == 1 && def.leaves()[0].0.ignore_case {
                let mut twin = def.clone();
                for s in twin.skips.iter_mut() {
                    s.ignore_case = false;
                }
                for v in twin.variants.iter_mut() {
                    for x in v.iter_mut() {
                        x.ignore_case = false;
                    }
                }
                let dt = derive_def(&twin);
                if dt.panic.is_none() && dt.errors.is_empty() {
                    return Err((vec![], format!("a definition with one pattern is accepted without ignore(case) and rejected with it: {errs:?}")));
                }
            }
            return Ok(());
        }
        Err(PrepError::NoReference(_)) => {
            run.count("defs_without_reference", 1);
            return Ok(());
        }
        Err(PrepError::Harness(m)) => panic!("harness fault: {m}"),
    };
    run.count("defs_accepted", 1);
    let key = fnv(p.rust.as_bytes());
    let nontrivial = def.leaves().iter().any(|(x, _)| {
        let v = x.lit.value();
        x.kind == PatKind::Token && (v.iter().any(|b| b"\\.+*?()|[]{}^$#&-~".contains(b)) || v.iter().any(|&b| b >= 0x80))
    }) || def.skips.iter().any(|s| s.ignore_case);
    if nontrivial {
        run.nontrivial(key);
    }
    if def.skips.iter().any(|s| s.ignore_case) {
        run.count("defs_with_skip_ignore_case", 1);
    }
    if def.leaves().iter().any(|(x, _)| x.ignore_case && x.kind == PatKind::Token) {
        run.count("defs_with_token_ignore_case", 1);
    }
    twin_check(def, &p).map_err(|m| (vec![], m))?;
    let mut inputs = inputs_for(&p, def, &[], &[], 300, 800, run);
    inputs.extend(extra_inputs(def));
    for input in &inputs {
        run.eval(1);
        if input.len() >= 2 {
            run.sample(|| json!({"definition": p.rust, "input": show(input)}));
        }
        let f = findings_for("C01", &p, def, input, None, key);
        if let Some(x) = f.first() {
            return Err((input.clone(), format!("on input {}: {}", show(input), x.what)));
        }
    }
    Ok(())
}

pub fn main(args: &Args) -> i32 {
    let mut run = Run::new(
        "C10",
        &args.tier,
        args.seed,
        "proptest literal family: #[token(w)] with w over all regex metacharacters, cased non-ASCII chars and arbitrary bytes (str and byte-string), with/without ignore(case); #[regex(p, ignore(case))]; #[logos(skip(p, ignore(case)))]; ignore(case) regexes / skips that reference a subpattern with cased chars; inputs = joint transition cover + case-toggled variants of every literal and of a shortest match of every ignore(case) regex / skip, subpattern references included (whole-string, per-char, special folds K/ſ/ς/İ, doubled, with suffix); oracle: exact bytes for plain tokens, regex crate language of the harness-escaped literal / pattern under case_insensitive otherwise; leaf metadata equal to the flag-less twin; evaluation = one (definition,input); non-trivial = distinct definitions whose literal has a metacharacter or a byte >= 0x80, or with a case-insensitive skip",
    );
    run.assumptions = vec!["harness escaping (\\xHH / \\x{H} for every non-alphanumeric) is independent of regex_syntax::escape used by logos".into()];
    if let Some(path) = &args.replay {
        let v: serde_json::Value = serde_json::from_str(&std::fs::read_to_string(path).unwrap()).unwrap();
        let def: DefSpec = serde_json::from_value(v["def"].clone()).unwrap();
        let input = unhex(v["input_hex"].as_str().unwrap_or(""));
        let mut scratch = Run::new("C10", "quick", 0, "");
        let mut bad = check(&def, &mut scratch).err().map(|e| e.1);
        if bad.is_none() {
            if let Ok(p) = prepare(&def) {
                bad = findings_for("C01", &p, &def, &input, None, 0).first().map(|f| f.what.clone());
            }
        }
        return match bad {
            None => {
                println!("replay: no violation of C10");
                0
            }
            Some(m) => {
                println!("replay: {m}");
                println!("VIOLATION property=C10 replay={}", path.display());
                1
            }
        };
    }
    // harvested family: the accepted definitions that ship with the repository - their literal tokens (operators,
    // brackets, keywords next to identifier patterns) must match verbatim, their ignore(case) patterns like (?i)
    for h in model::harvest::harvest() {
        if prepare(&h.def).is_err() {
            continue;
        }
        run.count("harvested_defs", 1);
        if let Err((input, msg)) = check(&h.def, &mut run) {
            run.violations = 1;
            report_violation("C10", &args.replay_dir, &json!({"property": "C10", "tier": "G", "origin": h.origin, "def": h.def, "rendered_rust": model::prep::render(&h.def), "input_hex": hex(&input), "input": show(&input), "findings": [{"property": "C10", "what": msg}]}));
            run.write_evidence(&args.evidence);
            return 1;
        }
    }
    let cases = if args.cases > 0 { args.cases } else if args.thorough() { 50000 } else { 5000 };
    let res = drive(&literal_defs(), cases, args.seed ^ 0xC10, 600, &mut run, |def, run| check(def, run).map_err(|e| e.1));
    let code = match res {
        DriveResult::Pass => 0,
        DriveResult::Fail(def) => {
            let mut scratch = Run::new("C10", "quick", 0, "");
            let (input, msg) = check(&def, &mut scratch).err().unwrap_or_default();
            run.violations = 1;
            report_violation("C10", &args.replay_dir, &json!({"property": "C10", "tier": "G", "def": def, "rendered_rust": model::prep::render(&def), "input_hex": hex(&input), "input": show(&input), "findings": [{"property": "C10", "what": msg}]}));
            1
        }
        DriveResult::Abort(m) => {
            eprintln!("aborted: {m}");
            2
        }
    };
    run.write_evidence(&args.evidence);
    code
}
