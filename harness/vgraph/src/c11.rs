//! C11: subpattern references = scoped textual inclusion. The reference is built from the pattern
//! with references inlined at AST level; the definition with references must behave like it, and
//! generate() must give the same implementation for the definition with references and the
//! definition with inlined patterns (metamorphic). Undefined / forward references must be rejected.

use serde_json::json;

use model::gen::{subpattern_defs, SubCase};
use model::prep::{derive_def, prepare, PrepError};
use model::run::{drive, report_violation, Args, DriveResult, Run};
use model::spec::DefSpec;
use model::{fnv, hex, show, unhex};

use crate::lexprops::{findings_for, inputs_for};

fn inlined_def(def: &DefSpec) -> DefSpec {
    let mut d = def.clone();
    // subpattern definitions stay (they are validated on their own) but no longer reference each other
    for sp in d.subpatterns.iter_mut() {
        if let Some(i) = sp.inlined.take() {
            sp.lit = i;
        }
    }
    for p in d.skips.iter_mut().chain(d.variants.iter_mut().flat_map(|v| v.iter_mut())) {
        if let Some(i) = p.inlined.take() {
            p.lit = i;
        }
    }
    d
}

fn check(case: &SubCase, run: &mut Run) -> Result<(), (Vec<u8>, String)> {
    let def = &case.def;
    run.eval(1);
    if case.must_reject {
        let d = derive_def(def);
        run.count("must_reject_cases", 1);
        if d.panic.is_some() {
            run.count("derive_panicked(C19 business)", 1);
            return Ok(());
        }
        if case.reject_kind == 1 {
            if d.errors.is_empty() {
                let bad = def.subpatterns.iter().map(|s| s.lit.text.clone()).collect::<Vec<_>>();
                return Err((vec![], format!("a subpattern source that is no regex on its own (one of {bad:?}) is accepted: wrapped in a group it parses, and its alternation / groups leak into the referencing pattern")));
            }
        } else if !d.errors.iter().any(|m| m.contains("not found")) {
            return Err((vec![], format!("undefined or forward subpattern reference accepted (diagnostics: {:?})", d.errors)));
        }
        run.nontrivial(fnv(d.rust.as_bytes()));
        return Ok(());
    }
    let twin = inlined_def(def);
    let dt = derive_def(&twin);
    let p = match prepare(def) {
        Ok(p) => p,
        Err(PrepError::Panic(_)) => {
            run.count("derive_panicked(C19 business)", 1);
            return Ok(());
        }
        Err(PrepError::Rejected(errs, _)) => {
            run.count("defs_rejected", 1);
            if dt.panic.is_none() && dt.errors.is_empty() && dt.graph.is_some() {
                return Err((vec![], format!("definition with references rejected ({errs:?}) but the same definition with the references inlined is accepted")));
            }
            // the twin keeps the subpattern definitions. A third rendering has none at all: when every subpattern source is
            // a regex on its own in its own Unicode mode (and, in a str-mode definition, matches only valid UTF-8), nothing
            // about the definitions themselves can justify the rejection
            let own_ok = def.subpatterns.iter().all(|sp| {
                let (text, unicode) = sp.inlined.as_ref().unwrap_or(&sp.lit).as_regex();
                match model::reference::parse_hir(&text, unicode, false) {
                    Ok(h) => !def.utf8 || h.properties().is_utf8(),
                    Err(_) => false,
                }
            });
            if own_ok {
                let mut bare = twin.clone();
                bare.subpatterns.clear();
                let db = derive_def(&bare);
                if db.panic.is_none() && db.errors.is_empty() && db.graph.is_some() {
                    return Err((vec![], format!("definition with references rejected ({errs:?}) although every subpattern source is a valid regex in its own mode and the patterns with the references replaced by groups are accepted")));
                }
            }
            return Ok(());
        }
        Err(PrepError::NoReference(_)) => {
            run.count("defs_without_reference", 1);
            return Ok(());
        }
        Err(PrepError::Harness(m)) => panic!("harness fault: {m}"),
    };
    run.count("defs_accepted", 1);
    let key = fnv(p.rust.as_bytes());
    if case.max_ref_depth >= 2 || def.subpatterns.iter().any(|s| s.lit.bytes || s.lit.text.contains('|') || s.lit.text.contains("(?")) {
        run.nontrivial(key);
    }
    if case.max_ref_depth >= 2 {
        run.count("defs_with_nested_reference", 1);
    }
    if def.subpatterns.iter().any(|s| s.lit.bytes) {
        run.count("defs_with_byte_string_subpattern", 1);
    }
    // metamorphic: same implementation as the inlined definition
    if !dt.errors.is_empty() || dt.panic.is_some() {
        return Err((vec![], format!("definition with references accepted but the inlined twin is rejected: {:?}", dt.errors)));
    }
    if model::prep::normalize_tokens(&dt.output) != model::prep::normalize_tokens(&p.output) {
        return Err((vec![], "generate() differs between the definition with references and the definition with inlined patterns".into()));
    }
    let inputs = inputs_for(&p, def, &[], &[], 250, 700, run);
    for input in &inputs {
        run.eval(1);
        if input.len() >= 2 {
            run.sample(|| json!({"definition": p.rust, "input": show(input)}));
        }
        let f = findings_for("C01", &p, def, input, None, key);
        if let Some(x) = f.first() {
            return Err((input.clone(), format!("on input {}: {}", show(input), x.what)));
        }
    }
    Ok(())
}

pub fn main(args: &Args) -> i32 {
    let mut run = Run::new(
        "C11",
        &args.tier,
        args.seed,
        "proptest subpattern family: 1-3 subpatterns (str and byte-string, bodies with alternations / inline flags, later ones referencing earlier ones), 1-3 patterns with references at start/middle/end and inside repetitions/alternations; oracle: reference lexer built from the AST-inlined pattern ((?u:body)/(?-u:body)) compared on covering inputs, generate() string equality with the inlined definition, undefined/forward/near-miss references must be rejected; evaluation = one definition (plus one per input lexed); non-trivial = distinct definitions with nested reference depth >= 2, a byte-string subpattern, a subpattern with top-level alternation or inline flags, or a planted bad reference",
    );
    if let Some(path) = &args.replay {
        let v: serde_json::Value = serde_json::from_str(&std::fs::read_to_string(path).unwrap()).unwrap();
        let def: DefSpec = serde_json::from_value(v["def"].clone()).unwrap();
        let case = SubCase { def, must_reject: v["must_reject"].as_bool().unwrap_or(false), max_ref_depth: 0, reject_kind: v["reject_kind"].as_u64().unwrap_or(0) as u8 };
        let input = unhex(v["input_hex"].as_str().unwrap_or(""));
        let mut scratch = Run::new("C11", "quick", 0, "");
        let mut bad = check(&case, &mut scratch).err().map(|e| e.1);
        if bad.is_none() && !case.must_reject {
            if let Ok(p) = prepare(&case.def) {
                bad = findings_for("C01", &p, &case.def, &input, None, 0).first().map(|f| f.what.clone());
            }
        }
        return match bad {
            None => {
                println!("replay: no violation of C11");
                0
            }
            Some(m) => {
                println!("replay: {m}");
                println!("VIOLATION property=C11 replay={}", path.display());
                1
            }
        };
    }
    // harvested family: the definitions with subpatterns that ship with the repository, references inlined by the
    // harness' own substitution
    for h in model::harvest::harvest() {
        if h.def.subpatterns.is_empty() {
            continue;
        }
        run.count("harvested_defs_with_subpatterns", 1);
        let case = SubCase { def: h.def.clone(), must_reject: false, max_ref_depth: 0, reject_kind: 0 };
        if let Err((input, msg)) = check(&case, &mut run) {
            run.violations = 1;
            report_violation("C11", &args.replay_dir, &json!({"property": "C11", "tier": "G", "origin": h.origin, "def": case.def, "must_reject": false, "reject_kind": 0, "rendered_rust": model::prep::render(&case.def), "input_hex": hex(&input), "input": show(&input), "findings": [{"property": "C11", "what": msg}]}));
            run.write_evidence(&args.evidence);
            return 1;
        }
    }
    let cases = if args.cases > 0 { args.cases } else if args.thorough() { 30000 } else { 1500 };
    let res = drive(&subpattern_defs(), cases, args.seed ^ 0xC11, 600, &mut run, |c, run| check(c, run).map_err(|e| e.1));
    let code = match res {
        DriveResult::Pass => 0,
        DriveResult::Fail(case) => {
            let mut scratch = Run::new("C11", "quick", 0, "");
            let (input, msg) = check(&case, &mut scratch).err().unwrap_or_default();
            run.violations = 1;
            report_violation("C11", &args.replay_dir, &json!({"property": "C11", "tier": "G", "def": case.def, "must_reject": case.must_reject, "reject_kind": case.reject_kind, "rendered_rust": model::prep::render(&case.def), "input_hex": hex(&input), "input": show(&input), "findings": [{"property": "C11", "what": msg}]}));
            1
        }
        DriveResult::Abort(m) => {
            eprintln!("aborted: {m}");
            2
        }
    };
    run.write_evidence(&args.evidence);
    code
}
