//! Tier L: the logos-cli binary built from /repo. C17 (stripped enum + implementation, --check) and
//! the CLI part of C16 (byte-identical output across processes and code generators).

use std::path::{Path, PathBuf};
use std::process::Command;

use proptest::collection::vec;
use proptest::prelude::*;
use proptest::sample::select;
use quote::ToTokens;
use serde_json::json;

use model::run::{drive, report_violation, Args, DriveResult, Run};
use model::fnv;

#[derive(Clone, Debug)]
pub struct EnumSrc {
    pub outer: Vec<String>,
    pub generics: &'static str,
    /// where clause (with leading space) or empty
    pub where_clause: &'static str,
    /// (attrs, name suffix / fields)
    pub variants: Vec<(Vec<String>, String)>,
}

impl EnumSrc {
    pub fn render(&self) -> String {
        let mut s = String::new();
        for a in &self.outer {
            s.push_str(a);
            s.push('\n');
        }
        s.push_str(&format!("pub enum Tok{}{} {{\n", self.generics, self.where_clause));
        for (i, (attrs, fields)) in self.variants.iter().enumerate() {
            for a in attrs {
                s.push_str("    ");
                s.push_str(a);
                s.push('\n');
            }
            s.push_str(&format!("    V{i}{fields},\n"));
        }
        s.push_str("}\n");
        s
    }
}

const DERIVE_ITEMS: &[&str] = &[
    "Debug", "Clone", "Copy", "PartialEq", "Eq", "Hash", "thiserror::Error", "::core::fmt::Debug", "std::clone::Clone", "serde::Serialize", "core::cmp::PartialEq", "my_crate::derive::Thing",
];
// the derive under its own name, path-qualified, and through a renamed / re-exported crate path
const LOGOS_DERIVES: &[&str] = &["Logos", "Logos", "Logos", "logos::Logos", "::logos::Logos", "lexer::Logos", "deps::logos::Logos", "crate::reexports::Logos", "lg::Logos"];
const OUTER_OTHER: &[&str] = &[
    "/// A token.", "#[repr(u8)]", "#[allow(dead_code)]", "#[cfg_attr(test, derive(PartialOrd))]", "#[doc = \"second\"]", "#[non_exhaustive]", "#[serde(tag = \"t\")]",
    "#[derive()]", "#[must_use]", "#[error(\"unexpected token\")]", "#[extras_like(u8)]", "#[tokens(all)]",
];
const OUTER_LOGOS: &[&str] = &["#[logos(skip r\"[ \\t]+\")]", "#[logos(extras = u32)]", "#[logos(error = MyErr)]", "#[logos(subpattern d = \"[0-9]\")]", "#[logos(crate = lexer)]"];
const VAR_OTHER: &[&str] = &["/// doc", "#[cfg(all())]", "#[serde(rename = \"x\")]", "#[allow(unused)]", "#[doc(hidden)]", "#[deprecated]", "#[error(\"bad\")]", "#[regexp(\"x\")]", "#[my::token(\"t\")]"];
const FIELD_ATTRS: &[&str] = &["", "", "#[allow(unused)] ", "#[doc = \"f\"] ", "#[cfg(all())] ", "#[serde(skip)] ", "#[logos(nothing)] ", "#[regex(\"zz\")] "];

pub fn enum_strategy() -> BoxedStrategy<EnumSrc> {
    // derive attribute: list with the Logos derive at a generated position (or absent in this attribute)
    let derive_attr = (vec(select(DERIVE_ITEMS), 0..=3), prop::option::weighted(0.6, (select(LOGOS_DERIVES), any::<u8>())), any::<bool>()).prop_map(|(mut items, logos, trailing)| {
        let mut v: Vec<String> = items.drain(..).map(|s| s.to_string()).collect();
        if let Some((l, pos)) = logos {
            let at = (pos as usize * (v.len() + 1)) >> 8;
            v.insert(at, l.to_string());
        }
        format!("#[derive({}{})]", v.join(", "), if trailing && !v.is_empty() { "," } else { "" })
    });
    let outer = prop_oneof![3 => derive_attr, 3 => select(OUTER_OTHER).prop_map(|s| s.to_string()), 2 => select(OUTER_LOGOS).prop_map(|s| s.to_string())];
    let pats = select(vec!["a", "bb", "ccc", "d+", "[e-h]x", "0", "if", "==", "\\.", "日"]);
    let variant = (vec(select(VAR_OTHER), 0..=2), vec(pats, 0..=2), select(vec!["unit", "unit", "u32", "str", "string"]), select(FIELD_ATTRS), any::<u8>());
    (vec(outer, 0..=5), vec(variant, 1..=5), any::<bool>(), prop::bool::weighted(0.4))
        .prop_map(|(mut outer, vars, lifetime, with_where)| {
            // make sure Logos is derived somewhere (the CLI is meant for such enums); keep generated position otherwise
            if !outer.iter().any(|a| a.starts_with("#[derive(") && a.contains("Logos")) {
                outer.insert(0, "#[derive(Logos, Debug)]".to_string());
            }
            // subpattern `d` only referenced when defined; definitions stay as generated
            let mut used = std::collections::BTreeSet::new();
            let mut variants = Vec::new();
            let mut needs_lt = false;
            for (others, pats, shape, fattr, order) in vars {
                let mut attrs: Vec<String> = others.iter().map(|s| s.to_string()).collect();
                for p in pats {
                    if !used.insert(p) {
                        continue;
                    }
                    let is_regex = p.contains('+') || p.contains('[') || p.contains('\\');
                    let a = if is_regex { format!("#[regex(r\"{p}\")]") } else { format!("#[token(\"{p}\")]") };
                    let at = (order as usize * (attrs.len() + 1)) >> 8;
                    attrs.insert(at, a);
                }
                let fields = match shape {
                    "u32" => format!("({fattr}u32)"),
                    "str" if lifetime => {
                        needs_lt = true;
                        format!("({fattr}&'a str)")
                    }
                    "string" => format!("({fattr}String)"),
                    _ => String::new(),
                };
                variants.push((attrs, fields));
            }
            EnumSrc { outer, generics: if needs_lt { "<'a>" } else { "" }, where_clause: if needs_lt && with_where { " where 'a: 'a" } else { "" }, variants }
        })
        .boxed()
}

/// The enum the CLI must print: computed independently with syn.
pub fn expected_enum(src: &str) -> Result<syn::ItemEnum, String> {
    let mut item: syn::ItemEnum = syn::parse_str(src).map_err(|e| format!("harness: generated enum does not parse: {e}"))?;
    fn is_logos(a: &syn::Attribute) -> bool {
        a.path().is_ident("logos") || a.path().is_ident("token") || a.path().is_ident("regex")
    }
    item.attrs.retain(|a| !is_logos(a));
    for a in item.attrs.iter_mut() {
        if a.path().is_ident("derive") {
            if let syn::Meta::List(list) = &mut a.meta {
                let paths = list
                    .parse_args_with(syn::punctuated::Punctuated::<syn::Path, syn::Token![,]>::parse_terminated)
                    .map_err(|e| format!("harness: derive list: {e}"))?;
                let kept: Vec<syn::Path> = paths.into_iter().filter(|p| p.segments.last().map(|s| s.ident != "Logos").unwrap_or(true)).collect();
                list.tokens = quote::quote!(#(#kept),*);
            }
        }
    }
    for v in item.variants.iter_mut() {
        v.attrs.retain(|a| !is_logos(a));
        for f in v.fields.iter_mut() {
            f.attrs.retain(|a| !is_logos(a));
        }
    }
    Ok(item)
}

/// Normal form for comparing enums: derive lists as path sequences, empty derive attributes dropped.
fn normalise(mut item: syn::ItemEnum) -> String {
    let mut attrs = Vec::new();
    for a in item.attrs.drain(..) {
        if a.path().is_ident("derive") {
            if let syn::Meta::List(list) = &a.meta {
                if let Ok(paths) = list.parse_args_with(syn::punctuated::Punctuated::<syn::Path, syn::Token![,]>::parse_terminated) {
                    if paths.is_empty() {
                        continue;
                    }
                    let ps: Vec<syn::Path> = paths.into_iter().collect();
                    let attr: syn::Attribute = syn::parse_quote!(#[derive_norm(#(#ps),*)]);
                    attrs.push(attr);
                    continue;
                }
            }
        }
        attrs.push(a);
    }
    item.attrs = attrs;
    item.to_token_stream().to_string()
}

pub struct Cli {
    pub bin: PathBuf,
    pub dir: PathBuf,
}

impl Cli {
    fn run(&self, args: &[&str]) -> (i32, String, String) {
        let out = Command::new(&self.bin).args(args).current_dir(&self.dir).output().expect("run logos-cli");
        (out.status.code().unwrap_or(-1), String::from_utf8_lossy(&out.stdout).into_owned(), String::from_utf8_lossy(&out.stderr).into_owned())
    }
}

#[derive(Clone, Debug)]
pub enum FileOp {
    Write,
    Check,
    TamperCrlf,
    TamperEdit,
    TamperBlankLine,
    /// append a line terminator ("\n" or "\r\n") to the file: still the output, ignoring line endings
    TamperFinalTerminator(bool),
    /// remove the final line terminator, if any
    TamperStripFinal,
    /// from here on the CLI is run with --format (rustfmt): several lines, final newline
    ToggleFormat,
    Delete,
}

fn fileop() -> BoxedStrategy<FileOp> {
    prop_oneof![3 => Just(FileOp::Write), 5 => Just(FileOp::Check), 2 => Just(FileOp::TamperCrlf), 2 => Just(FileOp::TamperEdit), 1 => Just(FileOp::TamperBlankLine), 2 => any::<bool>().prop_map(FileOp::TamperFinalTerminator), 1 => Just(FileOp::TamperStripFinal), 2 => Just(FileOp::ToggleFormat), 1 => Just(FileOp::Delete)].boxed()
}

fn check_c17(cli: &Cli, case: &(EnumSrc, Vec<FileOp>), run: &mut Run) -> Result<(), String> {
    let (e, ops) = case;
    let src = e.render();
    let input = cli.dir.join("input.rs");
    let output = cli.dir.join("out.gen.rs");
    std::fs::write(&input, &src).unwrap();
    let _ = std::fs::remove_file(&output);
    run.eval(1);
    let (code, stdout, stderr) = cli.run(&["input.rs"]);
    if code != 0 {
        return Err(format!("logos-cli failed on a valid enum source (exit {code}): {stderr}"));
    }
    let expected_out = stdout.strip_suffix('\n').unwrap_or(&stdout).to_string();
    // (1) valid Rust: enum followed by an impl
    let file: syn::File = syn::parse_str(&expected_out).map_err(|e| format!("logos-cli output is not valid Rust: {e}"))?;
    let (en, im) = match &file.items[..] {
        [syn::Item::Enum(en), syn::Item::Impl(im)] => (en.clone(), im.clone()),
        other => return Err(format!("logos-cli output is not [enum, impl] but {} items", other.len())),
    };
    // (2) stripped enum
    let exp = expected_enum(&src)?;
    let (a, b) = (normalise(en), normalise(exp));
    if a != b {
        return Err(format!("the enum printed by logos-cli differs from the input with logos attributes and the Logos derive removed:\n  printed : {a}\n  expected: {b}"));
    }
    // (3) the implementation the derive would generate
    let gen = logos_codegen::generate(src.parse().unwrap()).to_string();
    let gen_impl: syn::ItemImpl = syn::parse_str(&gen).map_err(|e| format!("harness: generate() output: {e}"))?;
    if gen_impl.to_token_stream().to_string() != im.to_token_stream().to_string() {
        return Err("the implementation printed by logos-cli differs from logos_codegen::generate on the same input".into());
    }
    let nontrivial = e.outer.iter().any(|a| a.starts_with("#[derive(") && a.contains("::")) || e.outer.iter().filter(|a| a.starts_with("#[derive(")).count() >= 2 || e.variants.iter().any(|v| v.1.contains("#["));
    if nontrivial {
        run.nontrivial(fnv(src.as_bytes()));
    }
    if e.outer.iter().any(|a| a.starts_with("#[derive(") && a.contains("::")) {
        run.count("sources_with_path_derive", 1);
    }
    if e.variants.iter().any(|v| v.1.contains("#[")) {
        run.count("sources_with_field_attribute", 1);
    }
    run.sample(|| json!({"source": src, "history": format!("{ops:?}")}));
    // (4) write / check / tamper history against a file-state model
    let mut model: Option<String> = None;
    let plain_out = expected_out.clone();
    let mut expected_out = expected_out;
    let mut format = false;
    let rustfmt_ok = Command::new("rustfmt").arg("--version").output().map(|o| o.status.success()).unwrap_or(false);
    for (i, op) in ops.iter().enumerate() {
        run.eval(1);
        let with_fmt = |base: &[&'static str]| -> Vec<&'static str> {
            let mut v = base.to_vec();
            if format {
                v.push("--format");
            }
            v
        };
        match op {
            FileOp::ToggleFormat => {
                if !rustfmt_ok {
                    run.count("format_ops_skipped(no rustfmt)", 1);
                    continue;
                }
                format = !format;
                if format {
                    let (c, out, err) = cli.run(&["input.rs", "--format"]);
                    if c != 0 {
                        return Err(format!("op #{i}: logos-cli --format failed (exit {c}): {err}"));
                    }
                    // stdout mode prints the output and a newline
                    expected_out = out.strip_suffix('\n').unwrap_or(&out).to_string();
                    if syn::parse_str::<syn::File>(&expected_out).is_err() {
                        return Err(format!("op #{i}: logos-cli --format output is not valid Rust"));
                    }
                    run.count("histories_with_format", 1);
                } else {
                    expected_out = plain_out.clone();
                }
            }
            FileOp::TamperFinalTerminator(crlf) => {
                if let Some(m) = &model {
                    let t = format!("{m}{}", if *crlf { "\r\n" } else { "\n" });
                    std::fs::write(&output, &t).unwrap();
                    model = Some(t);
                    run.count("final_terminator_tampers", 1);
                }
            }
            FileOp::TamperStripFinal => {
                if let Some(m) = &model {
                    let t = m.strip_suffix("\r\n").or_else(|| m.strip_suffix('\n')).unwrap_or(m).to_string();
                    std::fs::write(&output, &t).unwrap();
                    model = Some(t);
                }
            }
            FileOp::Write => {
                let (c, _, err) = cli.run(&with_fmt(&["input.rs", "--output", "out.gen.rs"]));
                if c != 0 {
                    return Err(format!("op #{i} write: exit {c}: {err}"));
                }
                let got = std::fs::read_to_string(&output).map_err(|e| format!("op #{i} write: no file: {e}"))?;
                // an up-to-date file (ignoring line endings) is left alone, otherwise it holds exactly the output
                let up_to_date = model.as_ref().map(|m| m.lines().eq(expected_out.lines())).unwrap_or(false);
                let want = if up_to_date { model.clone().unwrap() } else { expected_out.clone() };
                if got != want {
                    return Err(format!("op #{i} write: the file does not hold the generated output"));
                }
                model = Some(got);
            }
            FileOp::Check => {
                let before = std::fs::read(&output).ok();
                let mtime = std::fs::metadata(&output).ok().and_then(|m| m.modified().ok());
                let (c, _, _) = cli.run(&with_fmt(&["input.rs", "--check", "--output", "out.gen.rs"]));
                let should_pass = model.as_ref().map(|m| m.lines().eq(expected_out.lines())).unwrap_or(false);
                if (c == 0) != should_pass {
                    return Err(format!("op #{i} --check exited {c} but the file {} the generated output (ignoring line endings)", if should_pass { "holds" } else { "does not hold" }));
                }
                let after = std::fs::read(&output).ok();
                let mtime2 = std::fs::metadata(&output).ok().and_then(|m| m.modified().ok());
                if before != after || mtime != mtime2 {
                    return Err(format!("op #{i} --check modified the output file"));
                }
            }
            FileOp::TamperCrlf => {
                if let Some(m) = &model {
                    let t = m.replace("\r\n", "\n").replace('\n', "\r\n");
                    std::fs::write(&output, &t).unwrap();
                    model = Some(t);
                }
            }
            FileOp::TamperEdit => {
                if let Some(m) = &model {
                    let t = format!("{m} ");
                    std::fs::write(&output, &t).unwrap();
                    model = Some(t);
                }
            }
            FileOp::TamperBlankLine => {
                if let Some(m) = &model {
                    let t = format!("{m}\n\n");
                    std::fs::write(&output, &t).unwrap();
                    model = Some(t);
                }
            }
            FileOp::Delete => {
                let _ = std::fs::remove_file(&output);
                model = None;
            }
        }
    }
    Ok(())
}

pub fn main_c17(args: &Args) -> i32 {
    let mut run = Run::new(
        "C17",
        &args.tier,
        args.seed,
        "proptest enum sources (0-5 outer attributes in generated order: derive lists with Logos first/middle/last/alone/absent-in-this-list, path-qualified derives incl. logos::Logos, several derive attributes, cfg_attr, repr, docs, foreign attributes, logos attributes; 1-5 variants with docs/cfg/foreign/logos attributes, unit and one-field variants with field attributes, lifetimes) x histories vec(op,0..6) over {write, check, tamper CRLF / edit / blank line / final terminator added or removed, switch --format on and off, delete}; oracle: stdout = [enum, impl] valid Rust, enum == input minus logos/token/regex attributes and the Logos derive (computed with syn), impl == logos_codegen::generate(input), --check exits 0 iff file lines == output lines and never changes bytes or mtime, write leaves exactly the output; evaluation = one CLI invocation group; non-trivial = distinct sources with a path derive, >= 2 derive attributes or a field attribute",
    );
    let bin = PathBuf::from(args.extra.get("cli").expect("--cli"));
    let dir = model::run::root().join("work/cli-scratch/c17");
    std::fs::create_dir_all(&dir).unwrap();
    let cli = Cli { bin, dir };
    if let Some(path) = &args.replay {
        let v: serde_json::Value = serde_json::from_str(&std::fs::read_to_string(path).unwrap()).unwrap();
        let src = v["source"].as_str().unwrap().to_string();
        // replay through a literal source
        let e = EnumSrc { outer: vec![src.trim_end().to_string()], generics: "", where_clause: "", variants: vec![] };
        let _ = e;
        return replay_c17(&cli, &src, path);
    }
    // harvested sources: the enums that ship with the repository, as written (callbacks, payloads, generics, extras,
    // error types, doc comments); the ones the derive rejects are not CLI inputs
    for (origin, src) in model::harvest::harvest_raw() {
        let accepted = std::panic::catch_unwind(|| !logos_codegen::generate(src.parse().unwrap()).to_string().contains("compile_error")).unwrap_or(false);
        if !accepted {
            run.count("harvested_sources_rejected_by_the_derive", 1);
            continue;
        }
        run.eval(1);
        run.count("harvested_sources", 1);
        if let Err(msg) = literal_check(&cli, &src) {
            run.violations = 1;
            report_violation("C17", &args.replay_dir, &json!({"property": "C17", "tier": "L", "origin": origin, "source": src, "history": "[write, check]", "findings": [{"property": "C17", "what": msg}]}));
            run.write_evidence(&args.evidence);
            return 1;
        }
    }
    let cases = if args.cases > 0 { args.cases } else if args.thorough() { 6000 } else { 400 };
    let strat = (enum_strategy(), vec(fileop(), 0..6));
    let res = drive(&strat, cases, args.seed ^ 0xC17, 300, &mut run, |c, run| check_c17(&cli, c, run));
    let code = match res {
        DriveResult::Pass => 0,
        DriveResult::Fail(case) => {
            let mut scratch = Run::new("C17", "quick", 0, "");
            let msg = check_c17(&cli, &case, &mut scratch).err().unwrap_or_default();
            run.violations = 1;
            report_violation("C17", &args.replay_dir, &json!({"property": "C17", "tier": "L", "source": case.0.render(), "history": format!("{:?}", case.1), "findings": [{"property": "C17", "what": msg}]}));
            1
        }
        DriveResult::Abort(m) => {
            eprintln!("aborted: {m}");
            2
        }
    };
    run.write_evidence(&args.evidence);
    code
}

/// Checks (1)-(3) and a fixed write / check history on a literal enum source.
fn literal_check(cli: &Cli, src: &str) -> Result<(), String> {
    let input = cli.dir.join("input.rs");
    std::fs::write(&input, src).unwrap();
    let (code, stdout, stderr) = cli.run(&["input.rs"]);
    (|| -> Result<(), String> {
        if code != 0 {
            return Err(format!("logos-cli failed (exit {code}): {stderr}"));
        }
        let out = stdout.strip_suffix('\n').unwrap_or(&stdout).to_string();
        let file: syn::File = syn::parse_str(&out).map_err(|e| format!("output is not valid Rust: {e}"))?;
        let (en, im) = match &file.items[..] {
            [syn::Item::Enum(en), syn::Item::Impl(im)] => (en.clone(), im.clone()),
            _ => return Err("output is not [enum, impl]".into()),
        };
        let (a, b) = (normalise(en), normalise(expected_enum(src)?));
        if a != b {
            return Err(format!("printed enum differs:\n  printed : {a}\n  expected: {b}"));
        }
        let gen = logos_codegen::generate(src.parse().unwrap()).to_string();
        let gi: syn::ItemImpl = syn::parse_str(&gen).map_err(|e| e.to_string())?;
        if gi.to_token_stream().to_string() != im.to_token_stream().to_string() {
            return Err("printed implementation differs from generate()".into());
        }
        let (c, _, _) = cli.run(&["input.rs", "--output", "out.gen.rs"]);
        let (c2, _, _) = cli.run(&["input.rs", "--check", "--output", "out.gen.rs"]);
        if c != 0 || c2 != 0 {
            return Err(format!("write/check exit {c}/{c2}"));
        }
        Ok(())
    })()
}

fn replay_c17(cli: &Cli, src: &str, path: &Path) -> i32 {
    match literal_check(cli, src) {
        Ok(()) => {
            println!("replay: no violation of C17");
            0
        }
        Err(m) => {
            println!("replay: {m}");
            println!("VIOLATION property=C17 replay={}", path.display());
            1
        }
    }
}

// ---------------------------------------------------------------------------------------------
// C16, CLI part: byte-identical output across processes, write + --check, both code generators

pub fn c16_cli(args: &Args, run: &mut Run, sources: &[String]) -> Option<serde_json::Value> {
    let bins: Vec<(&str, PathBuf)> = [("tailcall", "cli"), ("state_machine", "cli-sm")].iter().filter_map(|(n, k)| args.extra.get(*k).map(|p| (*n, PathBuf::from(p)))).collect();
    for (name, bin) in bins {
        let dir = model::run::root().join(format!("work/cli-scratch/c16-{name}"));
        std::fs::create_dir_all(&dir).unwrap();
        let cli = Cli { bin, dir: dir.clone() };
        // all inputs exist before the first run: every output written below is younger than the inputs still to come,
        // which is what a build that regenerates several lexers into one place looks like
        for (i, src) in sources.iter().enumerate() {
            std::fs::write(dir.join(format!("input_{i}.rs")), src).unwrap();
        }
        // the first source (the only one on replay) finds a longer, younger file of some earlier generation at the output path
        std::fs::write(dir.join("out.gen.rs"), "// output of an earlier run\n".repeat(4000)).unwrap();
        for (i, src) in sources.iter().enumerate() {
            let inp = format!("input_{i}.rs");
            let inp = inp.as_str();
            // out.gen.rs keeps the output of the previous source (longer or shorter than this one): the result of a
            // run must not depend on what the output path held before
            let (c1, o1, e1) = cli.run(&[inp]);
            let (c2, o2, _) = cli.run(&[inp]);
            let (c3, o3, _) = cli.run(&[inp]);
            run.eval(3);
            if c1 != 0 {
                run.count("cli_rejected_inputs", 1);
                let _ = e1;
                continue;
            }
            if o1 != o2 || o1 != o3 || c2 != 0 || c3 != 0 {
                return Some(json!({"property": "C16", "tier": "L", "generator": name, "source": src, "findings": [{"property": "C16", "what": "logos-cli printed different output in different processes for the same input"}]}));
            }
            let (cw, _, _) = cli.run(&[inp, "--output", "out.gen.rs"]);
            let (cc, _, _) = cli.run(&[inp, "--check", "--output", "out.gen.rs"]);
            run.eval(2);
            if cw != 0 || cc != 0 {
                return Some(json!({"property": "C16", "tier": "L", "generator": name, "source": src, "findings": [{"property": "C16", "what": format!("--check fails (exit {cc}) right after writing the output (exit {cw}): generation is not reproducible")}]}));
            }
            let _ = std::fs::remove_file(dir.join("fresh.gen.rs"));
            let (cf, _, _) = cli.run(&[inp, "--output", "fresh.gen.rs"]);
            run.eval(1);
            let with_history = std::fs::read(dir.join("out.gen.rs")).unwrap_or_default();
            let fresh = std::fs::read(dir.join("fresh.gen.rs")).unwrap_or_default();
            if cf != 0 || with_history != fresh {
                return Some(json!({"property": "C16", "tier": "L", "generator": name, "source": src, "findings": [{"property": "C16", "what": format!("the file written over the previous source's output ({} bytes) differs from the file written to a fresh path ({} bytes, exit {cf}) for the same input", with_history.len(), fresh.len())}]}));
            }
            run.count("cli_outputs_written_over_previous_output", 1);
            run.nontrivial(fnv(format!("{name}{src}").as_bytes()));
        }
    }
    None
}
