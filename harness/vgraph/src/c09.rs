//! C09: default priorities. (1) structural rule re-implemented from the statement over the harness'
//! own parse; (2) behavioural cross-check 2 x (minimum chars of any accepted string) by shortest path
//! on the pattern's reference DFA; (3) consequence: a literal is never beaten on its own text.

use std::collections::VecDeque;

use regex_automata::dfa::Automaton;
use regex_syntax::hir::{Hir, HirKind};
use serde_json::json;

use model::gen::{pair_defs, priority_patterns};
use model::graph::GraphLexer;
use model::prep::derive_def;
use model::reference::{parse_hir, pattern_regex, Matcher, RefDfa, RefLexer};
use model::run::{drive, report_violation, Args, DriveResult, Run};
use model::spec::{DefSpec, PatKind, PatSpec};
use model::{fnv, show};

/// The rule of the statement: literal chars x2 (bytes when not UTF-8), class 2, concatenation adds,
/// alternation min, repetition min x, assertions 0.
fn rule(h: &Hir) -> usize {
    match h.kind() {
        HirKind::Empty => 0,
        HirKind::Literal(l) => match std::str::from_utf8(&l.0) {
            Ok(s) => 2 * s.chars().count(),
            Err(_) => 2 * l.0.len(),
        },
        HirKind::Class(_) => 2,
        HirKind::Look(_) => 0,
        HirKind::Repetition(r) => r.min as usize * rule(&r.sub),
        HirKind::Capture(c) => rule(&c.sub),
        HirKind::Concat(v) => v.iter().map(rule).sum(),
        HirKind::Alternation(v) => v.iter().map(rule).min().unwrap_or(0),
    }
}

fn has_look(h: &Hir) -> bool {
    match h.kind() {
        HirKind::Look(_) => true,
        HirKind::Repetition(r) => has_look(&r.sub),
        HirKind::Capture(c) => has_look(&c.sub),
        HirKind::Concat(v) | HirKind::Alternation(v) => v.iter().any(has_look),
        _ => false,
    }
}

/// minimum number of chars (non-continuation bytes) of any string the DFA accepts; None = empty language
fn min_chars(d: &RefDfa) -> Option<usize> {
    let n = d.ids.len();
    let mut dist = vec![usize::MAX; n];
    let mut dq = VecDeque::new();
    dist[0] = 0;
    dq.push_back(0usize);
    let mut best: Option<usize> = None;
    while let Some(i) = dq.pop_front() {
        let s = d.ids[i];
        let di = dist[i];
        if d.dfa.is_match_state(d.dfa.next_eoi_state(s)) {
            best = Some(best.map_or(di, |b| b.min(di)));
        }
        for b in 0..=255u8 {
            let t = d.dfa.next_state(s, b);
            if d.dfa.is_match_state(t) {
                best = Some(best.map_or(di, |x| x.min(di)));
            }
            if d.dfa.is_dead_state(t) {
                continue;
            }
            let j = d.idx(t);
            let cost = if (b & 0xC0) == 0x80 { 0 } else { 1 };
            if di + cost < dist[j] {
                dist[j] = di + cost;
                if cost == 0 {
                    dq.push_front(j);
                } else {
                    dq.push_back(j);
                }
            }
        }
    }
    best
}

fn check_pattern(case: &(PatSpec, Option<usize>, bool), run: &mut Run) -> Result<(), String> {
    let (pat, explicit, as_skip) = case;
    let mut p = pat.clone();
    p.priority = *explicit;
    let byte_lit = p.lit.bytes;
    let def = if *as_skip && p.kind == PatKind::Regex {
        DefSpec { utf8: !byte_lit, subpatterns: vec![], skips: vec![p.clone()], variants: vec![vec![PatSpec::token(model::spec::LitSpec::str("\u{1}zz"))]] }
    } else {
        DefSpec { utf8: !byte_lit, subpatterns: vec![], skips: vec![], variants: vec![vec![p.clone()]] }
    };
    // byte-mode so that nothing is rejected for UTF-8 reasons before the leaf exists
    let def = DefSpec { utf8: false, ..def };
    let d = derive_def(&def);
    run.eval(1);
    if d.panic.is_some() {
        run.count("derive_panicked(C19 business)", 1);
        return Ok(());
    }
    let Some(g) = d.graph else {
        run.count("no_leaf_built(pattern rejected before the graph)", 1);
        return Ok(());
    };
    if g.leaves.len() != def.n_leaves() {
        run.count("no_leaf_built(pattern rejected before the graph)", 1);
        return Ok(());
    }
    let leaf = &g.leaves[0];
    let is_skip = *as_skip && p.kind == PatKind::Regex;
    let expected = if let Some(e) = explicit {
        *e
    } else if p.kind == PatKind::Token && !is_skip {
        2 * p.lit.value().len()
    } else {
        let Some((text, unicode, icase)) = pattern_regex(&p, is_skip) else { return Ok(()) };
        let Ok(h) = parse_hir(&text, unicode, icase) else {
            run.count("reference_parse_failed", 1);
            return Ok(());
        };
        let r = rule(&h);
        // behavioural cross-check
        let eligible = unicode && !has_look(&h) && !text.contains("(?-u") && h.properties().is_utf8();
        if eligible {
            if let Ok(dfa) = RefDfa::from_hir(h.clone()) {
                if let Some(mc) = min_chars(&dfa) {
                    run.count("behavioural_crosschecks", 1);
                    if 2 * mc != r {
                        return Err(format!("oracle disagreement (harness): rule gives {r}, shortest accepted string has {mc} chars for {text:?}"));
                    }
                }
            }
        }
        r
    };
    let nontrivial = explicit.is_none()
        && (p.lit.text.contains('|') || p.lit.text.contains('{') || !p.lit.text.is_ascii() || p.lit.bytes || p.ignore_case);
    if nontrivial {
        run.nontrivial(fnv(d.rust.as_bytes()));
    }
    run.sample(|| json!({"definition": d.rust, "captured_priority": leaf.priority, "expected": expected}));
    if leaf.priority != expected {
        return Err(format!("pattern {} has priority {}, the rule gives {}", leaf.display, leaf.priority, expected));
    }
    // the rule does not depend on the mode: str-literal patterns also in a str-mode definition (when acceptable there)
    if !byte_lit {
        let def_str = DefSpec { utf8: true, ..def };
        let ds = derive_def(&def_str);
        if let (None, Some(gs)) = (&ds.panic, &ds.graph) {
            if gs.leaves.len() == def_str.n_leaves() && ds.errors.is_empty() {
                run.count("also_checked_in_str_mode", 1);
                if gs.leaves[0].priority != expected {
                    return Err(format!("in a str-mode definition pattern {} has priority {}, the rule gives {}", gs.leaves[0].display, gs.leaves[0].priority, expected));
                }
            }
        }
    }
    Ok(())
}

/// The rule's value for one pattern of a definition (None: no reference parse).
fn expected_priority(p: &PatSpec, is_skip: bool) -> Option<usize> {
    if let Some(e) = p.priority {
        return Some(e);
    }
    if p.kind == PatKind::Token && !is_skip {
        return Some(2 * p.lit.value().len());
    }
    let (text, unicode, icase) = pattern_regex(p, is_skip)?;
    let h = parse_hir(&text, unicode, icase).ok()?;
    Some(rule(&h))
}

/// Whole definitions (several skips, tokens and regexes side by side): every pattern of an accepted definition is one
/// leaf of the graph, and that leaf carries the pattern's own priority - the rule's value or the explicit one - whatever
/// stands next to it.
fn check_def(def: &DefSpec, run: &mut Run) -> Result<(), String> {
    let d = derive_def(def);
    run.eval(1);
    if d.panic.is_some() || !d.errors.is_empty() {
        run.count("multi_pattern_defs_not_accepted", 1);
        return Ok(());
    }
    let Some(g) = d.graph else { return Ok(()) };
    run.count("multi_pattern_defs_accepted", 1);
    let leaves = def.leaves();
    if g.leaves.len() != leaves.len() {
        return Err(format!("the definition has {} patterns but the graph was built from {} leaves: patterns do not keep their own priorities", leaves.len(), g.leaves.len()));
    }
    for (i, (p, variant)) in leaves.iter().enumerate() {
        let Some(expected) = expected_priority(p, variant.is_none()) else {
            run.count("reference_parse_failed", 1);
            continue;
        };
        if g.leaves[i].priority != expected {
            return Err(format!("in this definition pattern {} has priority {}, the rule gives {}", g.leaves[i].display, g.leaves[i].priority, expected));
        }
    }
    if def.skips.len() >= 2 {
        run.count("multi_pattern_defs_with_two_or_more_skips", 1);
        run.nontrivial(fnv(d.rust.as_bytes()));
    }
    Ok(())
}

fn check_pair(def: &DefSpec, run: &mut Run) -> Result<(), String> {
    // which variant holds the token
    let tok_variant = def.variants.iter().position(|v| v[0].kind == PatKind::Token).unwrap();
    let w = def.variants[tok_variant][0].lit.value();
    let Ok(r) = RefLexer::build(def) else {
        run.count("no_reference", 1);
        return Ok(());
    };
    // the regex must match w entirely, otherwise the pair says nothing
    let rx = def.variants.iter().position(|v| v[0].kind == PatKind::Regex && v[0].priority.is_none()).unwrap();
    let n_leaves = def.variants.len();
    let Matcher::Dfa(_) = &r.pats[rx].matcher else { return Ok(()) };
    let pr = r.pats[rx].matcher.run(&w, 0);
    if !pr.ends.contains(&w.len()) {
        run.count("pairs_where_regex_does_not_match_literal", 1);
        return Ok(());
    }
    run.eval(1);
    let d = derive_def(def);
    if d.panic.is_some() {
        run.count("derive_panicked(C19 business)", 1);
        return Ok(());
    }
    let Some(g) = d.graph else {
        run.count("no_graph", 1);
        return Ok(());
    };
    if g.leaves.len() != n_leaves {
        run.count("no_graph", 1);
        return Ok(());
    }
    if n_leaves == 3 {
        run.count("pairs_with_a_bystander_between", 1);
    }
    let pt = g.leaves[tok_variant].priority;
    let prx = g.leaves[rx].priority;
    if pt.abs_diff(prx) <= 2 {
        run.nontrivial(fnv(d.rust.as_bytes()));
    }
    run.sample(|| json!({"definition": d.rust, "token_priority": pt, "regex_priority": prx, "rejected": !d.errors.is_empty()}));
    if !d.errors.is_empty() {
        let amb: Vec<&String> = d.errors.iter().filter(|m| m.contains("can match simultaneously")).collect();
        if amb.is_empty() {
            run.count("pairs_rejected_for_other_reasons", 1);
            return Ok(());
        }
        run.count("pairs_rejected_as_ambiguous", 1);
        let td = &g.leaves[tok_variant].display;
        let rd = &g.leaves[rx].display;
        if !amb.iter().any(|m| m.contains(td.as_str()) && m.contains(rd.as_str())) {
            return Err(format!("ambiguity reported but not naming both {td} and {rd}: {amb:?}"));
        }
        return Ok(());
    }
    run.count("pairs_accepted", 1);
    let mut gl = GraphLexer::new(&g, &w, true, false);
    let first = gl.next();
    let ok = first == Some(Ok(tok_variant)) && gl.token_start == 0 && gl.token_end == w.len();
    if !ok {
        return Err(format!(
            "lexing the literal {} yields {:?} {}..{} instead of the token's variant (token priority {pt}, regex priority {prx})",
            show(&w),
            first,
            gl.token_start,
            gl.token_end
        ));
    }
    Ok(())
}

/// Explicit priorities, from 0 to usize::MAX with the powers of two in between.
const EXPLICIT_POOL: &[usize] = &[
    0, 1, 2, 3, 4, 5, 7, 8, 9, 255, 256, 65535, 65536, 1 << 31, (1 << 32) - 1, 1 << 32, (1 << 32) + 1, (1 << 32) + 4, (1 << 32) + 8, (1 << 33) + 9, (1 << 32) + 20, 1 << 48,
    1 << 63, usize::MAX - 1, usize::MAX,
];

/// Explicit overrides: a literal token and a regex that matches the literal, one or both with an explicit priority. The
/// numerically higher priority (explicit, or the rule's default) wins on the literal's text; equal priorities are an
/// ambiguity the derive reports.
fn check_explicit(case: &(DefSpec, u8, Option<u8>), run: &mut Run) -> Result<(), String> {
    let (def0, ri, ti) = case;
    let mut def = def0.clone();
    // pair_defs: variants hold the token, the regex (default priority) and possibly a bystander (priority 1), one each
    def.variants.retain(|v| !(v[0].kind == PatKind::Regex && v[0].priority.is_some()));
    let tok_variant = def.variants.iter().position(|v| v[0].kind == PatKind::Token).unwrap();
    let rx = 1 - tok_variant;
    let w = def.variants[tok_variant][0].lit.value();
    let p_rx = EXPLICIT_POOL[(*ri as usize * EXPLICIT_POOL.len()) >> 8];
    def.variants[rx][0].priority = Some(p_rx);
    let p_tok = match ti {
        Some(t) => {
            let p = EXPLICIT_POOL[(*t as usize * EXPLICIT_POOL.len()) >> 8];
            def.variants[tok_variant][0].priority = Some(p);
            p
        }
        None => 2 * w.len(),
    };
    let Ok(r) = RefLexer::build(&def) else { return Ok(()) };
    let Matcher::Dfa(_) = &r.pats[rx].matcher else { return Ok(()) };
    if !r.pats[rx].matcher.run(&w, 0).ends.contains(&w.len()) {
        return Ok(());
    }
    run.eval(1);
    let d = derive_def(&def);
    if d.panic.is_some() {
        run.count("derive_panicked(C19 business)", 1);
        return Ok(());
    }
    let Some(g) = d.graph else { return Ok(()) };
    if g.leaves.len() != 2 {
        return Ok(());
    }
    run.count("explicit_priority_pairs", 1);
    if p_rx >= 1 << 32 || p_tok >= 1 << 32 {
        run.count("explicit_priority_pairs_beyond_32_bits", 1);
        run.nontrivial(fnv(d.rust.as_bytes()));
    }
    if g.leaves[rx].priority != p_rx || g.leaves[tok_variant].priority != p_tok {
        return Err(format!("explicit priorities {p_tok} (token) / {p_rx} (regex) arrive as {} / {}", g.leaves[tok_variant].priority, g.leaves[rx].priority));
    }
    let ambiguous = d.errors.iter().any(|m| m.contains("can match simultaneously"));
    if !d.errors.is_empty() && !ambiguous {
        run.count("pairs_rejected_for_other_reasons", 1);
        return Ok(());
    }
    if (p_rx == p_tok) != ambiguous {
        return Err(format!("token priority {p_tok}, regex priority {p_rx}, both match {}: {}", show(&w), if ambiguous { "reported as ambiguous although the priorities differ" } else { "accepted although the priorities are equal" }));
    }
    if ambiguous {
        return Ok(());
    }
    let mut gl = GraphLexer::new(&g, &w, true, false);
    let first = gl.next();
    let expect = if p_tok > p_rx { tok_variant } else { rx };
    if first != Some(Ok(expect)) || gl.token_start != 0 || gl.token_end != w.len() {
        return Err(format!("token priority {p_tok}, regex priority {p_rx}: lexing {} yields {:?} {}..{}, the higher priority is leaf {expect}", show(&w), first, gl.token_start, gl.token_end));
    }
    Ok(())
}

pub fn main(args: &Args) -> i32 {
    let mut run = Run::new(
        "C09",
        &args.tier,
        args.seed,
        "(1) proptest patterns (nested alternation/repetition/classes/multi-byte literals/assertions/flags, str and byte-string, tokens incl. ignore(case), also as skips, with and without explicit priority): captured leaf priority == the statement's rule computed on the harness' own parse, cross-checked against 2 x minimum chars of any accepted string (shortest path on the pattern DFA) for look-around-free Unicode patterns; (2) proptest (literal w, regex built to match w) pairs with default priorities: rejected naming both or lexing w yields the token; non-trivial = distinct patterns with alternation/counted repetition/non-ASCII/byte literal/ignore(case) and default priority, and pairs whose priorities differ by <= 2",
    );
    run.assumptions = vec!["regex-syntax HIR of the pattern text is the shape the rule is stated over (same crate version as logos uses)".into()];
    if let Some(path) = &args.replay {
        let v: serde_json::Value = serde_json::from_str(&std::fs::read_to_string(path).unwrap()).unwrap();
        let mut scratch = Run::new("C09", "quick", 0, "");
        let res = if v.get("explicit").and_then(|e| e.get("regex_index")).is_some() {
            let def: DefSpec = serde_json::from_value(v["def"].clone()).unwrap();
            let ri = v["explicit"]["regex_index"].as_u64().unwrap() as u8;
            let ti = v["explicit"]["token_index"].as_u64().map(|x| x as u8);
            check_explicit(&(def, ri, ti), &mut scratch)
        } else if v.get("whole_def").is_some() {
            let def: DefSpec = serde_json::from_value(v["def"].clone()).unwrap();
            check_def(&def, &mut scratch)
        } else if v.get("pair").is_some() {
            let def: DefSpec = serde_json::from_value(v["def"].clone()).unwrap();
            check_pair(&def, &mut scratch)
        } else {
            let pat: PatSpec = serde_json::from_value(v["pattern"].clone()).unwrap();
            let explicit = v["explicit"].as_u64().map(|x| x as usize);
            let as_skip = v["as_skip"].as_bool().unwrap_or(false);
            check_pattern(&(pat, explicit, as_skip), &mut scratch)
        };
        return match res {
            Ok(()) => {
                println!("replay: no violation of C09");
                0
            }
            Err(m) => {
                println!("replay: {m}");
                println!("VIOLATION property=C09 replay={}", path.display());
                1
            }
        };
    }
    use proptest::prelude::*;
    let cases = if args.cases > 0 { args.cases } else if args.thorough() { 60000 } else { 3000 };
    let strat = (priority_patterns(), prop::option::weighted(0.15, 0usize..40), prop::bool::weighted(0.25));
    // harvested family: every pattern of the definitions that ship with the repository, with its default priority
    // (references replaced by the harness' own inlining), as a token / regex and - for skips - as a skip
    for h in model::harvest::harvest() {
        for (pat, variant) in h.def.leaves() {
            let mut pat = pat.clone();
            if let Some(i) = pat.inlined.take() {
                pat.lit = i;
            }
            pat.callback = None;
            let case = (pat, None, variant.is_none());
            run.count("harvested_patterns", 1);
            if let Err(msg) = check_pattern(&case, &mut run) {
                if msg.starts_with("oracle disagreement") {
                    eprintln!("{msg}");
                    return 2;
                }
                run.violations = 1;
                report_violation("C09", &args.replay_dir, &json!({"property": "C09", "tier": "G", "origin": h.origin, "pattern": case.0, "explicit": case.1, "as_skip": case.2, "findings": [{"property": "C09", "what": msg}]}));
                run.write_evidence(&args.evidence);
                return 1;
            }
        }
    }
    let mut code = 0;
    match drive(&strat, cases, args.seed ^ 0xC09, 800, &mut run, |c, run| check_pattern(c, run)) {
        DriveResult::Pass => {}
        DriveResult::Fail(c) => {
            let mut scratch = Run::new("C09", "quick", 0, "");
            let msg = check_pattern(&c, &mut scratch).err().unwrap_or_default();
            if msg.starts_with("oracle disagreement") {
                eprintln!("{msg}");
                code = 2;
            } else {
                run.violations = 1;
                report_violation("C09", &args.replay_dir, &json!({"property": "C09", "tier": "G", "pattern": c.0, "explicit": c.1, "as_skip": c.2, "findings": [{"property": "C09", "what": msg}]}));
                code = 1;
            }
        }
        DriveResult::Abort(m) => {
            eprintln!("aborted: {m}");
            code = 2;
        }
    }
    if code == 0 {
        run.frozen = false;
        match drive(&pair_defs(), cases, args.seed ^ 0xC09A, 800, &mut run, |d, run| check_pair(d, run)) {
            DriveResult::Pass => {}
            DriveResult::Fail(def) => {
                let mut scratch = Run::new("C09", "quick", 0, "");
                let msg = check_pair(&def, &mut scratch).err().unwrap_or_default();
                run.violations = 1;
                report_violation("C09", &args.replay_dir, &json!({"property": "C09", "tier": "G", "pair": true, "def": def, "rendered_rust": model::prep::render(&def), "findings": [{"property": "C09", "what": msg}]}));
                code = 1;
            }
            DriveResult::Abort(m) => {
                eprintln!("aborted: {m}");
                code = 2;
            }
        }
    }
    if code == 0 {
        run.frozen = false;
        use proptest::prelude::*;
        let strat = (pair_defs(), any::<u8>(), prop::option::weighted(0.5, any::<u8>()));
        match drive(&strat, cases / 2, args.seed ^ 0xC09C, 600, &mut run, |c, run| check_explicit(c, run)) {
            DriveResult::Pass => {}
            DriveResult::Fail(c) => {
                let mut scratch = Run::new("C09", "quick", 0, "");
                let msg = check_explicit(&c, &mut scratch).err().unwrap_or_default();
                run.violations = 1;
                report_violation("C09", &args.replay_dir, &json!({"property": "C09", "tier": "G", "def": c.0, "explicit": {"regex_index": c.1, "token_index": c.2}, "findings": [{"property": "C09", "what": msg}]}));
                code = 1;
            }
            DriveResult::Abort(m) => {
                eprintln!("aborted: {m}");
                code = 2;
            }
        }
    }
    if code == 0 {
        // whole definitions: the lexing family (skips, tokens, regexes, explicit and default priorities) and the
        // definitions that ship with the repository
        run.frozen = false;
        let report = |def: &DefSpec, msg: String, run: &mut Run| {
            run.violations = 1;
            report_violation("C09", &args.replay_dir, &json!({"property": "C09", "tier": "G", "whole_def": true, "def": def, "rendered_rust": model::prep::render(def), "findings": [{"property": "C09", "what": msg}]}));
        };
        for h in model::harvest::harvest() {
            if let Err(msg) = check_def(&h.def, &mut run) {
                report(&h.def, msg, &mut run);
                code = 1;
                break;
            }
        }
        if code == 0 {
            match drive(&model::gen::lexing_defs(), cases / 2, args.seed ^ 0xC09B, 600, &mut run, |d, run| check_def(d, run)) {
                DriveResult::Pass => {}
                DriveResult::Fail(def) => {
                    let mut scratch = Run::new("C09", "quick", 0, "");
                    let msg = check_def(&def, &mut scratch).err().unwrap_or_default();
                    report(&def, msg, &mut run);
                    code = 1;
                }
                DriveResult::Abort(m) => {
                    eprintln!("aborted: {m}");
                    code = 2;
                }
            }
        }
    }
    run.write_evidence(&args.evidence);
    code
}
