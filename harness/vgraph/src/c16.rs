//! C16: code generation is deterministic. generate()/capture() repeated on freshly spawned threads
//! (each has its own RandomState keys) and in child processes; logos-cli run repeatedly; both code
//! generators through the CLI builds. Oracle: byte equality of all outputs.

use std::process::Command;

use proptest::prelude::*;
use proptest::sample::select;
use proptest::strategy::ValueTree;
use proptest::test_runner::{Config, RngSeed, TestRunner};
use serde_json::json;

use model::gen::{conflict_defs, lexing_defs};
use model::prep::{derive_rust, render};
use model::run::{report_violation, Args, Run};
use model::fnv;

use crate::clicheck::c16_cli;

/// definitions built around two-way forks (if-chains, where edge order is textual order), several
/// LUT masks and graph errors
fn twoway_sources() -> BoxedStrategy<String> {
    let alt = select(vec![
        "a(b|cd)(e|fg)", "x[0-9]y|x[a-z]z", "(k|lm)+n", "p(q|rs)*t", "[ac]u|[bd]v", "m[a-ce-g]n|m[x-z0]o", "(ab|cd)(ef|gh)(ij|kl)", "w(1|22)(3|44)(5|66)", "[a-cx-z0]+!|[d-f]+\\?",
        "h(i|jk)?l", "(?:y|zz){2}", "(?-u:[^a])b|(?-u:[^ac])d",
    ]);
    (proptest::collection::vec(alt, 2..=6), proptest::collection::vec(0usize..4, 6), any::<bool>(), prop::bool::weighted(0.3))
        .prop_map(|(pats, prios, utf8, dup)| {
            let mut s = String::from("#[derive(Logos)]\n");
            let byte_mode = !utf8 || pats.iter().any(|p| p.contains("(?-u"));
            if byte_mode {
                s.push_str("#[logos(utf8 = false)]\n");
            }
            s.push_str("#[logos(skip \" +\")]\nenum T {\n");
            let mut seen = std::collections::BTreeSet::new();
            for (i, p) in pats.iter().enumerate() {
                if !dup && !seen.insert(*p) {
                    continue;
                }
                // equal priorities on purpose now and then: several graph errors exercise the error path
                s.push_str(&format!("    #[regex(\"{}\", priority = {})]\n    V{i},\n", p.replace('\\', "\\\\"), 10 + prios[i % prios.len()] + if dup { 0 } else { 4 * i }));
            }
            s.push_str("}\n");
            s
        })
        .boxed()
}

/// definitions with several independent diagnostics: a subpattern definition whose patterns refer to 2-4 distinct
/// undefined names (in one pattern and across patterns), duplicated definitions, unknown items
fn multi_error_sources() -> BoxedStrategy<String> {
    let names = proptest::collection::vec(select(vec!["u1", "zz", "A_b", "n0", "q", "missing", "ws9"]), 2..=4);
    (model::gen::subpattern_defs(), names, any::<u8>()).prop_map(|(case, names, how)| {
        let mut def = case.def;
        let mut distinct: Vec<&str> = Vec::new();
        for n in names {
            if !distinct.contains(&n) {
                distinct.push(n);
            }
        }
        let refs: String = distinct.iter().map(|n| format!("(?&{n})")).collect();
        let mut pats: Vec<&mut model::spec::PatSpec> =
            def.skips.iter_mut().chain(def.variants.iter_mut().flat_map(|v| v.iter_mut())).filter(|p| p.kind == model::spec::PatKind::Regex && !p.lit.bytes).collect();
        if pats.is_empty() {
            return render(&def);
        }
        if how % 3 == 0 && pats.len() >= 2 {
            // spread over two patterns
            let k = distinct.len() / 2;
            let (a, b): (String, String) = (distinct[..k].iter().map(|n| format!("(?&{n})")).collect(), distinct[k..].iter().map(|n| format!("(?&{n})")).collect());
            let t0 = format!("{}{}", pats[0].lit.text, a);
            pats[0].lit = model::spec::LitSpec::str(t0);
            let t1 = format!("{}{}", b, pats[1].lit.text);
            pats[1].lit = model::spec::LitSpec::str(t1);
        } else {
            let t0 = if how % 2 == 0 { format!("{}{}", pats[0].lit.text, refs) } else { format!("{}{}", refs, pats[0].lit.text) };
            pats[0].lit = model::spec::LitSpec::str(t0);
        }
        render(&def)
    })
    .boxed()
}

fn features(src: &str) -> (bool, bool, bool) {
    let d = derive_rust(src.to_string());
    let Some(g) = d.graph else { return (false, false, d.errors.len() >= 2) };
    let twoway = g.states.iter().filter(|s| s.normal.len() == 2).count() >= 1;
    let errors = g.errors.len() >= 2 || d.errors.len() >= 2;
    let luts = d.output.matches("_TABLE_").count() >= 3;
    (twoway, luts, errors)
}

fn outputs_in_threads(src: &str, r: usize) -> Vec<String> {
    let mut hs = Vec::new();
    for _ in 0..r {
        let s = src.to_string();
        hs.push(std::thread::spawn(move || {
            let d = derive_rust(s);
            let graph = d.graph.map(|g| format!("{g:?}")).unwrap_or_default();
            format!("{}\n//GRAPH {}\n//PANIC {:?}", d.output, graph, d.panic)
        }));
    }
    hs.into_iter().map(|h| h.join().unwrap_or_else(|_| "thread panicked".into())).collect()
}

fn sources(args: &Args, n: usize) -> Vec<String> {
    let mut runner = TestRunner::new(Config { rng_seed: RngSeed::Fixed(args.seed ^ 0xC16), failure_persistence: None, ..Config::default() });
    let a = twoway_sources();
    let b = lexing_defs();
    let c = conflict_defs();
    let d = multi_error_sources();
    let e = crate::c19::soup_strategy();
    let mut out = Vec::new();
    // a few large definitions (long chains of mutually duplicate states: hundreds of milliseconds per expansion), so that
    // anything depending on elapsed time or load shows between the concurrent expansions
    for (k, reps) in [200usize, 150, 260].into_iter().enumerate() {
        out.push(format!(
            "#[derive(Logos)]\n#[logos(skip \" +\")]\nenum T {{\n    #[regex(\"A-[0-9]{{{reps}}}|B-[0-9]{{{reps}}}|C-[0-9]{{{reps}}}\")]\n    Big,\n    #[regex(\"[a-z]{{1,{}}}x\")]\n    Small,\n}}\n",
            40 + 10 * k
        ));
    }
    // the enums that ship with the repository, as written (callbacks, payloads, generics, extras, error types)
    for (_, src) in model::harvest::harvest_raw() {
        out.push(format!("{src}\n"));
    }
    for i in 0..n {
        match i % 6 {
            0 | 1 => out.push(a.new_tree(&mut runner).unwrap().current()),
            2 => out.push(render(&b.new_tree(&mut runner).unwrap().current())),
            3 => out.push(render(&c.new_tree(&mut runner).unwrap().current())),
            4 => out.push(d.new_tree(&mut runner).unwrap().current()),
            _ => out.push(e.new_tree(&mut runner).unwrap().current().render()),
        }
    }
    out
}

pub fn main(args: &Args) -> i32 {
    let mut run = Run::new(
        "C16",
        &args.tier,
        args.seed,
        "three fixed large definitions (long chains of duplicate states) and definitions from five generators (two-way-fork family built from alternations like a(b|cd)(e|fg) with colliding priorities for graph errors; the core lexing family; the conflict family; subpattern definitions with 2-4 distinct undefined references in one or two patterns; the C19 attribute soup with its malformed and must-reject attributes - diagnostics are output too) x schedules: generate()+captured graph on 8 freshly spawned threads per definition in-process, the whole batch digest recomputed in 3 child processes, logos-cli (tail-call and state-machine builds) run 3 times per sampled definition then written and --check'ed; plus histories: pairs of subpattern definitions with identical pattern texts and different subpattern bodies, the second expanded after the first on one thread vs on a fresh thread; oracle: byte equality of every output; evaluation = one generate()/CLI run; non-trivial = distinct definitions whose graph has a state with exactly two successors, >= 3 LUT references, or >= 2 graph errors or >= 2 diagnostics (counted once per schedule kind)",
    );
    run.assumptions = vec!["hash seeds are sampled (fresh RandomState keys per thread/process), not enumerated".into()];
    std::panic::set_hook(Box::new(|_| {}));
    let n = if args.cases > 0 { args.cases as usize } else if args.thorough() { 9000 } else { 750 };
    let srcs = sources(args, n);
    if let Some(path) = &args.replay {
        let v: serde_json::Value = serde_json::from_str(&std::fs::read_to_string(path).unwrap()).unwrap();
        let src = v["source"].as_str().unwrap().to_string();
        let outs = outputs_in_threads(&src, 24);
        let mut bad = outs.iter().any(|o| *o != outs[0]);
        if let Some(before) = v["expanded_before"].as_str() {
            let (b, s2) = (before.to_string(), src.clone());
            let after = std::thread::spawn(move || {
                let _ = derive_rust(b);
                let d = derive_rust(s2);
                format!("{}\n//GRAPH {}\n//PANIC {:?}", d.output, d.graph.map(|g| format!("{g:?}")).unwrap_or_default(), d.panic)
            })
            .join()
            .unwrap_or_else(|_| "thread panicked".into());
            bad = bad || after != outs[0];
        }
        let mut scratch = Run::new("C16", "quick", 0, "");
        if !bad {
            bad = c16_cli(args, &mut scratch, &[src]).is_some();
        }
        return if bad {
            println!("VIOLATION property=C16 replay={}", path.display());
            1
        } else {
            println!("replay: no violation of C16");
            0
        };
    }
    // child mode: print the digest of all outputs and exit
    if args.extra.contains_key("digest") {
        let mut h = 0u64;
        for s in &srcs {
            let d = derive_rust(s.clone());
            h = h.rotate_left(7) ^ fnv(d.output.as_bytes()) ^ fnv(format!("{:?}", d.graph).as_bytes());
        }
        println!("DIGEST {h:016x}");
        return 0;
    }
    let mut digest = 0u64;
    for src in &srcs {
        let (twoway, luts, errors) = features(src);
        let outs = outputs_in_threads(src, 8);
        run.eval(8);
        if twoway || luts || errors {
            run.nontrivial(fnv(src.as_bytes()));
        }
        for (f, k) in [(twoway, "defs_with_two_way_fork"), (luts, "defs_with_3+_lut_refs"), (errors, "defs_with_2+_graph_errors")] {
            if f {
                run.count(k, 1);
            }
        }
        run.sample(|| json!({"source": src, "two_way_fork": twoway, "graph_errors>=2": errors}));
        if let Some(i) = outs.iter().position(|o| *o != outs[0]) {
            run.violations = 1;
            let _ = i;
            report_violation("C16", &args.replay_dir, &json!({"property": "C16", "tier": "G", "source": src, "findings": [{"property": "C16", "what": format!("generate()/graph differ between threads: {} distinct outputs over 8 runs", outs.iter().collect::<std::collections::BTreeSet<_>>().len())}]}));
            run.write_evidence(&args.evidence);
            return 1;
        }
        let d = derive_rust(src.clone());
        digest = digest.rotate_left(7) ^ fnv(d.output.as_bytes()) ^ fnv(format!("{:?}", d.graph).as_bytes());
    }
    // histories: the output for a definition must not depend on what the same thread expanded before. Pairs (D, D') share all
    // pattern texts and differ in the bodies of their subpatterns; D' after D on one thread must equal D' on a fresh thread.
    {
        let mut runner = TestRunner::new(Config { rng_seed: RngSeed::Fixed(args.seed ^ 0xC16B), failure_persistence: None, ..Config::default() });
        let strat = model::gen::subpattern_defs();
        let pairs = if args.thorough() { 400 } else { 60 };
        let mut done = 0;
        let mut tries = 0;
        while done < pairs && tries < pairs * 6 {
            tries += 1;
            let case = strat.new_tree(&mut runner).unwrap().current();
            if case.must_reject || case.def.subpatterns.is_empty() {
                continue;
            }
            let d1 = case.def.clone();
            let mut d2 = case.def;
            for (k, sp) in d2.subpatterns.iter_mut().enumerate() {
                if sp.lit.bytes {
                    continue;
                }
                let body = ["[0-9]+", "[a-c]x", "k|zz", "\\w"][k % 4];
                let body = if sp.lit.text == body { "[d-f]+" } else { body };
                sp.lit = model::spec::LitSpec::str(body);
                sp.inlined = Some(model::spec::LitSpec::str(body));
            }
            let (s1, s2) = (render(&d1), render(&d2));
            if s1 == s2 {
                continue;
            }
            done += 1;
            let one = |s: String| {
                let d = derive_rust(s);
                format!("{}\n//GRAPH {}\n//PANIC {:?}", d.output, d.graph.map(|g| format!("{g:?}")).unwrap_or_default(), d.panic)
            };
            let (a1, a2) = (s1.clone(), s2.clone());
            let after = std::thread::spawn(move || {
                let _ = one(a1);
                one(a2)
            })
            .join()
            .unwrap_or_else(|_| "thread panicked".into());
            let b2 = s2.clone();
            let fresh = std::thread::spawn(move || one(b2)).join().unwrap_or_else(|_| "thread panicked".into());
            run.eval(2);
            run.count("history_pairs", 1);
            run.nontrivial(fnv(s2.as_bytes()) ^ 0x5151);
            if after != fresh {
                run.violations = 1;
                report_violation(
                    "C16",
                    &args.replay_dir,
                    &json!({"property": "C16", "tier": "G", "source": s2, "expanded_before": s1, "findings": [{"property": "C16", "what": "the output for a definition depends on what the same thread expanded before it (the same patterns with other subpattern bodies): it differs from the output on a fresh thread"}]}),
                );
                run.write_evidence(&args.evidence);
                return 1;
            }
        }
    }
    // child processes
    let exe = std::env::current_exe().unwrap();
    for k in 0..3 {
        let out = Command::new(&exe).args(["C16", "--seed", &args.seed.to_string(), "--tier", &args.tier, "--cases", &n.to_string(), "--digest", "1"]).output().expect("child");
        let text = String::from_utf8_lossy(&out.stdout);
        let child = text.lines().find_map(|l| l.strip_prefix("DIGEST ")).unwrap_or("").to_string();
        run.eval(n as u64);
        if child != format!("{digest:016x}") {
            // locate the definition: compare per source in a fresh child is expensive; report the batch
            run.violations = 1;
            report_violation("C16", &args.replay_dir, &json!({"property": "C16", "tier": "G", "source": srcs[0], "findings": [{"property": "C16", "what": format!("digest of all outputs differs between this process ({digest:016x}) and child process #{k} ({child})")}]}));
            run.write_evidence(&args.evidence);
            return 1;
        }
    }
    // CLI
    let m = if args.thorough() { 400 } else { 40 };
    let sample: Vec<String> = srcs.iter().take(m).cloned().collect();
    if let Some(v) = c16_cli(args, &mut run, &sample) {
        run.violations = 1;
        report_violation("C16", &args.replay_dir, &v);
        run.write_evidence(&args.evidence);
        return 1;
    }
    run.write_evidence(&args.evidence);
    0
}
