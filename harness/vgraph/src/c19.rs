//! C19 (tier G): the derive never panics and rejects what it cannot implement. Structured attribute
//! soup (valid skeleton + malformed / duplicated attributes) and constructively generated
//! must-reject definitions through the library entry point under catch_unwind.

use proptest::collection::vec;
use proptest::prelude::*;
use proptest::sample::select;
use serde_json::json;

use model::prep::{derive_rust, DeriveOut};
use model::run::{drive, report_violation, Args, DriveResult, Run};
use model::fnv;

pub use model::soup::{ENUM_ATTRS_BAD, ENUM_ATTRS_OK, MUST_REJECT_ATTRS, MUST_REJECT_SHAPES, VAR_ATTRS_BAD, VAR_ATTRS_OK};

#[derive(Clone, Debug)]
pub struct Soup {
    pub generics: &'static str,
    pub enum_attrs: Vec<&'static str>,
    /// (attrs, fields)
    pub variants: Vec<(Vec<&'static str>, &'static str)>,
    pub must_reject: Option<&'static str>,
    pub malformed: bool,
}

impl Soup {
    pub fn render(&self) -> String {
        let mut s = String::from("#[derive(Logos)]\n");
        for a in &self.enum_attrs {
            s.push_str(a);
            s.push('\n');
        }
        s.push_str(&format!("enum T{} {{\n", self.generics));
        for (i, (attrs, fields)) in self.variants.iter().enumerate() {
            for a in attrs {
                s.push_str("    ");
                s.push_str(a);
                s.push('\n');
            }
            s.push_str(&format!("    V{i}{fields},\n"));
        }
        s.push_str("}\n");
        s
    }
}

pub fn soup_strategy() -> BoxedStrategy<Soup> {
    let generics = select(vec!["", "", "", "<'s>", "<T>", "<'a, 'b>", "<const N: usize>", "<'s, T>"]);
    let enum_attr = prop_oneof![9 => select(ENUM_ATTRS_OK), 1 => select(ENUM_ATTRS_BAD)];
    let var_attr = prop_oneof![10 => select(VAR_ATTRS_OK), 1 => select(VAR_ATTRS_BAD)];
    let fields = select(vec!["", "", "", "", "", "", "", "", "(u32)", "(&'s str)", "(usize)", "(u32)", "(T)", "()", "(u8, u8)", "{ x: u8 }"]);
    let variant = (vec(var_attr, 0..=3), fields);
    let must = prop::option::weighted(
        0.25,
        prop_oneof![
            4 => select(MUST_REJECT_ATTRS).prop_map(|(a, r)| (Some(a), None, r)),
            1 => select(MUST_REJECT_SHAPES).prop_map(|(s, r)| (None, Some(s), r)),
            1 => Just((None, None, "const generics")),
        ],
    );
    (generics, vec(enum_attr, 0..=4), vec(variant, 1..=4), must, any::<u8>())
        .prop_map(|(generics, enum_attrs, mut variants, must, pos)| {
            let mut generics = generics;
            let mut must_reject = None;
            if let Some((attr, shape, reason)) = must {
                must_reject = Some(reason);
                if let Some(a) = attr {
                    // on its own unit variant so that the reason is independent of the rest
                    let at = (pos as usize) % (variants.len() + 1);
                    variants.insert(at, (vec![a], ""));
                } else if let Some(sh) = shape {
                    let at = (pos as usize) % (variants.len() + 1);
                    variants.insert(at, (if pos & 0x40 == 0 { vec!["#[token(\"mr\")]"] } else if pos & 0x20 == 0 { vec![] } else { vec!["/// doc"] }, sh));
                } else {
                    generics = "<const N: usize>";
                }
            }
            let malformed = enum_attrs.iter().any(|a| ENUM_ATTRS_BAD.contains(a)) || variants.iter().any(|(v, _)| v.iter().any(|a| VAR_ATTRS_BAD.contains(a)));
            Soup { generics, enum_attrs, variants, must_reject, malformed }
        })
        .boxed()
}

/// `fragments_ok`: every user-supplied fragment (types, paths, callback expressions) of the input is
/// well-formed; only then is the output required to parse as Rust (malformed fragments are pasted
/// through and reported by rustc at their own span, which the property does not forbid).
pub fn judge(src: &str, must_reject: Option<&str>, fragments_ok: bool, d: &DeriveOut) -> Result<(), String> {
    if let Some(p) = &d.panic {
        return Err(format!("derive panicked: {p}"));
    }
    if d.output.parse::<proc_macro2::TokenStream>().is_err() {
        return Err("derive output is not a token stream".into());
    }
    if fragments_ok {
        if let Err(e) = syn::parse_str::<syn::File>(&d.output) {
            return Err(format!("derive output does not parse as Rust items: {e}"));
        }
    }
    if let Some(reason) = must_reject {
        if d.errors.is_empty() {
            return Err(format!("definition must be rejected ({reason}) but no compile_error was emitted"));
        }
    }
    if d.errors.is_empty() {
        // accepted: the graph must exist, be error free and structurally sound
        let Some(g) = &d.graph else { return Err("accepted definition without a graph".into()) };
        if !g.errors.is_empty() {
            return Err(format!("accepted definition with graph errors {:?}", g.errors));
        }
        let root = &g.states[g.root];
        if root.early.is_some() || root.accept.is_some() {
            return Err("accepted definition whose root state records a match (empty token)".into());
        }
    }
    let _ = src;
    Ok(())
}

fn check(s: &Soup, run: &mut Run) -> Result<(), String> {
    let src = s.render();
    run.eval(1);
    let d = derive_rust(src.clone());
    if s.malformed || s.must_reject.is_some() {
        run.nontrivial(fnv(src.as_bytes()));
    }
    if s.must_reject.is_some() {
        run.count("must_reject_inputs", 1);
    }
    if s.malformed {
        run.count("inputs_with_malformed_or_duplicated_attribute", 1);
    }
    if d.panic.is_none() {
        run.count(if d.errors.is_empty() { "accepted" } else { "rejected" }, 1);
    }
    run.sample(|| json!({"source": src, "must_reject": s.must_reject, "diagnostics": d.errors.len(), "panic": d.panic}));
    judge(&src, s.must_reject, !s.malformed, &d)
}

/// Derive `src` in a child process (this binary in `--derive-one` mode). Err = the C19 verdict of the child, or the way
/// the child died.
fn derive_isolated(src: &str) -> Result<(), String> {
    let dir = model::run::root().join("work/c19-isolated");
    std::fs::create_dir_all(&dir).map_err(|e| e.to_string())?;
    let file = dir.join(format!("{:016x}.rs", model::fnv(src.as_bytes())));
    std::fs::write(&file, src).map_err(|e| e.to_string())?;
    let exe = std::env::current_exe().map_err(|e| e.to_string())?;
    let out = std::process::Command::new(exe).args(["C19", "--derive-one", file.to_str().unwrap()]).output().map_err(|e| format!("harness: cannot spawn the child: {e}"))?;
    let _ = std::fs::remove_file(&file);
    let text = String::from_utf8_lossy(&out.stdout);
    if text.lines().any(|l| l == "DERIVE-ONE OK") {
        return Ok(());
    }
    if let Some(m) = text.lines().find_map(|l| l.strip_prefix("DERIVE-ONE BAD ")) {
        return Err(m.to_string());
    }
    let err = String::from_utf8_lossy(&out.stderr);
    Err(format!("the derive brought the process down ({}): {}", out.status, err.lines().filter(|l| !l.trim().is_empty()).take(3).collect::<Vec<_>>().join(" / ")))
}

/// Enums with type parameters and `#[logos(type X = ..)]` items: plain, nested through another parameter, in both item
/// orders, naming themselves, naming each other, in references / tuples / arrays / fn pointers / trait objects.
fn type_item_sources() -> Vec<String> {
    let mut out = Vec::new();
    let one = ["u8", "&'s str", "Vec<u8>", "Vec<T>", "Option<Box<T>>", "(T, u8)", "[T; 2]", "&'s T", "fn(T) -> T", "Box<dyn Iterator<Item = T>>", "T", "std::collections::HashMap<T, T>"];
    for ty in one {
        out.push(format!("#[derive(Logos)]\n#[logos(type T = {ty})]\nenum Tok<T> {{\n    #[token(\"x\", |_| todo!())]\n    X(T),\n    #[token(\"y\")]\n    Y,\n}}\n"));
    }
    // patterns nested far beyond what any recursive pass can take (capture groups, repetitions): rejected or compiled,
    // but the process survives
    for depth in [300usize, 20_000, 150_000] {
        let pat = format!("{}a{}", "(".repeat(depth), ")".repeat(depth));
        out.push(format!("#[derive(Logos)]\nenum Tok {{\n    #[regex(\"{pat}\")]\n    X,\n    #[token(\"y\")]\n    Y,\n}}\n"));
        let pat = format!("{}a{}", "(?:".repeat(depth.min(20_000)), "){1,2}".repeat(depth.min(20_000)));
        out.push(format!("#[derive(Logos)]\nenum Tok {{\n    #[regex(\"{pat}\")]\n    X,\n    #[token(\"y\")]\n    Y,\n}}\n"));
    }
    let two = [("Vec<U>", "u8"), ("u8", "Vec<T>"), ("Vec<U>", "Vec<T>"), ("U", "T"), ("(U, U)", "Option<T>"), ("&'s U", "&'s str"), ("Box<U>", "Box<U>")];
    for (t, u) in two {
        for swap in [false, true] {
            let items = if swap { format!("#[logos(type U = {u})]\n#[logos(type T = {t})]") } else { format!("#[logos(type T = {t}, type U = {u})]") };
            out.push(format!("#[derive(Logos)]\n{items}\nenum Tok<T, U> {{\n    #[token(\"x\", |_| todo!())]\n    X(T),\n    #[token(\"y\", |_| todo!())]\n    Y(U),\n}}\n"));
        }
    }
    out
}

pub fn main(args: &Args) -> i32 {
    let mut run = Run::new(
        "C19",
        &args.tier,
        args.seed,
        "proptest attribute soup: enum with 0-4 enum-level attributes and 1-4 variants (unit, one-field, empty-tuple, multi-field, named) carrying 0-3 attributes drawn from pools of well-formed and malformed/duplicated #[logos]/#[token]/#[regex]/#[error] forms, generics incl. const; 35% carry a constructively generated must-reject item (empty match, start look-behind, Unicode \\b, greedy dot without allow_greedy, undefined subpattern, named/empty/multi-field variant, const generic); oracle: no panic (catch_unwind), output parses as Rust, must-reject => compile_error present, accepted => graph error-free with a root that records nothing; non-trivial = distinct inputs with a malformed/duplicated attribute or a must-reject item; second generator: the definition families of the other checks (core, subpattern incl. planted bad references, literal, conflict) judged for panic-freedom and soundness of accepted definitions (non-trivial there = definitions with subpatterns or non-ASCII text); before the soup every must-reject class is derived once on its own in an otherwise acceptable definition; third generator: a few patterns with nested counted repetitions whose counts multiply beyond usize (no panic)",
    );
    run.assumptions = vec!["library entry point (proc_macro2 fallback spans); the real proc-macro on stable is exercised by tier P".into()];
    // child mode (crash isolation): derive the source in this process, print the verdict, exit
    if let Some(path) = args.extra.get("derive-one") {
        std::panic::set_hook(Box::new(|_| {}));
        let src = std::fs::read_to_string(path).unwrap_or_default();
        let d = derive_rust(src.clone());
        match judge(&src, None, true, &d) {
            Ok(()) => println!("DERIVE-ONE OK"),
            Err(m) => println!("DERIVE-ONE BAD {}", m.replace('\n', " ")),
        }
        return 0;
    }
    if let Some(path) = &args.replay {
        let v: serde_json::Value = serde_json::from_str(&std::fs::read_to_string(path).unwrap()).unwrap();
        let src = v["source"].as_str().unwrap().to_string();
        let must = v["must_reject"].as_str();
        if v["isolated"].as_bool().unwrap_or(false) {
            return match derive_isolated(&src) {
                Ok(()) => {
                    println!("replay: no violation of C19");
                    0
                }
                Err(m) => {
                    println!("replay: {m}");
                    println!("VIOLATION property=C19 replay={}", path.display());
                    1
                }
            };
        }
        let d = derive_rust(src.clone());
        return match judge(&src, must, v["fragments_ok"].as_bool().unwrap_or(false), &d) {
            Ok(()) => {
                println!("replay: no violation of C19");
                0
            }
            Err(m) => {
                println!("replay: {m}");
                println!("VIOLATION property=C19 replay={}", path.display());
                1
            }
        };
    }
    let cases = if args.cases > 0 { args.cases } else if args.thorough() { 100000 } else { 6000 };
    // panics are expected to be caught: keep the default hook quiet
    std::panic::set_hook(Box::new(|_| {}));
    // every must-reject class once on its own, in a definition that is acceptable otherwise: whether the soup draws a
    // class in a definition without other errors is a matter of luck, this pass is not
    for (attr, reason) in model::soup::MUST_REJECT_ATTRS {
        for extra in ["", "#[logos(skip \" +\")]\n"] {
            let src = format!("#[derive(Logos)]\n{extra}enum T {{\n    {attr}\n    V0,\n    #[token(\"zq\")]\n    V1,\n}}\n");
            let d = derive_rust(src.clone());
            run.eval(1);
            run.count("must_reject_classes_alone", 1);
            if let Err(msg) = judge(&src, Some(reason), true, &d) {
                run.violations = 1;
                report_violation("C19", &args.replay_dir, &json!({"property": "C19", "tier": "G", "source": src, "must_reject": reason, "fragments_ok": true, "findings": [{"property": "C19", "what": msg}]}));
                run.write_evidence(&args.evidence);
                return 1;
            }
        }
    }
    for (enum_attrs, attr, reason) in model::soup::MUST_REJECT_DEFS {
        for extra in ["", "#[logos(skip \" +\")]\n"] {
            let src = format!("#[derive(Logos)]\n{enum_attrs}\n{extra}enum T {{\n    {attr}\n    V0,\n    #[token(\"zq\")]\n    V1,\n}}\n");
            let d = derive_rust(src.clone());
            run.eval(1);
            run.count("must_reject_classes_alone", 1);
            if let Err(msg) = judge(&src, Some(reason), true, &d) {
                run.violations = 1;
                report_violation("C19", &args.replay_dir, &json!({"property": "C19", "tier": "G", "source": src, "must_reject": reason, "fragments_ok": true, "findings": [{"property": "C19", "what": msg}]}));
                run.write_evidence(&args.evidence);
                return 1;
            }
        }
    }
    // unacceptable pattern tails next to subpattern references (regex, skip and subpattern form): the position of the
    // offending part differs between the pattern as written and the pattern after substitution
    for (tail, reason) in model::soup::BAD_TAILS {
        for (wi, w) in model::soup::REF_SUBPATTERNS.iter().enumerate() {
            let pats = [format!("(?&w){tail}"), format!("(?&w)(?&w)-{tail}"), format!("é(?&w){tail}"), format!("{tail}(?&w)"), format!("((?&w))={tail}")];
            let pat = &pats[wi % pats.len()];
            for form in 0..3 {
                let src = match form {
                    0 => format!("#[derive(Logos)]\n#[logos(subpattern w = \"{w}\")]\nenum T {{\n    #[regex(\"{pat}\")]\n    V0,\n    #[token(\"zq\")]\n    V1,\n}}\n"),
                    1 => format!("#[derive(Logos)]\n#[logos(subpattern w = \"{w}\")]\n#[logos(skip \"{pat}\")]\nenum T {{\n    #[token(\"zq\")]\n    V1,\n}}\n"),
                    _ => format!("#[derive(Logos)]\n#[logos(subpattern w = \"{w}\")]\n#[logos(subpattern v = \"{pat}\")]\nenum T {{\n    #[regex(\"(?&v)!\")]\n    V0,\n    #[token(\"zq\")]\n    V1,\n}}\n"),
                };
                let d = derive_rust(src.clone());
                run.eval(1);
                run.count("must_reject_tails_next_to_references", 1);
                if let Err(msg) = judge(&src, Some(reason), true, &d) {
                    run.violations = 1;
                    report_violation("C19", &args.replay_dir, &json!({"property": "C19", "tier": "G", "source": src, "must_reject": reason, "fragments_ok": true, "findings": [{"property": "C19", "what": msg}]}));
                    run.write_evidence(&args.evidence);
                    return 1;
                }
            }
        }
    }
    for (shape, reason) in model::soup::MUST_REJECT_SHAPES {
        // the offending variant with a pattern, with a foreign attribute only, and bare (a variant without a pattern is no
        // token of the lexer, its shape is rejected all the same)
        for attr in ["#[token(\"mr\")]\n    ", "#[allow(dead_code)]\n    ", "/// doc\n    ", ""] {
            let src = format!("#[derive(Logos)]\nenum T {{\n    {attr}V0{shape},\n    #[token(\"zq\")]\n    V1,\n}}\n");
            let d = derive_rust(src.clone());
            run.eval(1);
            run.count("must_reject_classes_alone", 1);
            if let Err(msg) = judge(&src, Some(reason), true, &d) {
                run.violations = 1;
                report_violation("C19", &args.replay_dir, &json!({"property": "C19", "tier": "G", "source": src, "must_reject": reason, "fragments_ok": true, "findings": [{"property": "C19", "what": msg}]}));
                run.write_evidence(&args.evidence);
                return 1;
            }
        }
    }
    // type-parameter items (concrete types in terms of other parameters, of themselves, of each other), each derived in a
    // child process: a crash of the process (stack overflow, abort) is not catchable in-process
    for src in type_item_sources() {
        run.eval(1);
        run.count("type_item_sources_derived_in_a_child_process", 1);
        if let Err(msg) = derive_isolated(&src) {
            run.violations = 1;
            report_violation("C19", &args.replay_dir, &json!({"property": "C19", "tier": "G", "source": src, "must_reject": null, "fragments_ok": true, "isolated": true, "findings": [{"property": "C19", "what": msg}]}));
            run.write_evidence(&args.evidence);
            return 1;
        }
    }
    // the enums that ship with the repository, as written (incl. the suite's must-fail data): no panic, and what is
    // accepted parses
    for (origin, src) in model::harvest::harvest_raw() {
        let d = derive_rust(src.clone());
        run.eval(1);
        run.count("harvested_sources", 1);
        if let Err(msg) = judge(&src, None, true, &d) {
            run.violations = 1;
            report_violation("C19", &args.replay_dir, &json!({"property": "C19", "tier": "G", "origin": origin, "source": src, "must_reject": null, "fragments_ok": true, "findings": [{"property": "C19", "what": msg}]}));
            run.write_evidence(&args.evidence);
            return 1;
        }
    }
    let res = drive(&soup_strategy(), cases, args.seed ^ 0xC19, 800, &mut run, |c, run| check(c, run));
    let code = match res {
        DriveResult::Pass => 0,
        DriveResult::Fail(s) => {
            let src = s.render();
            let d = derive_rust(src.clone());
            let msg = judge(&src, s.must_reject, !s.malformed, &d).err().unwrap_or_default();
            run.violations = 1;
            report_violation("C19", &args.replay_dir, &json!({"property": "C19", "tier": "G", "source": src, "must_reject": s.must_reject, "fragments_ok": !s.malformed, "findings": [{"property": "C19", "what": msg}]}));
            1
        }
        DriveResult::Abort(m) => {
            eprintln!("aborted: {m}");
            2
        }
    };
    let code = if code == 0 { family_part(args, &mut run) } else { code };
    let code = if code == 0 { counts_part(args, &mut run) } else { code };
    run.write_evidence(&args.evidence);
    code
}

/// Second generator: the definition families of the other checks (core lexing, subpatterns incl. planted bad
/// references, literals, conflicts). Those checks skip a case when the derive panics (a panic is C19's clause);
/// here the same inputs are judged for exactly that: no panic, and an accepted definition has a sound graph and
/// output that parses.
/// Third generator: nested counted repetitions whose counts multiply beyond usize (the default priority is a product of
/// the minimum counts). Oracle: no panic; whether the derive accepts or rejects such a pattern is not prescribed. Few cases:
/// a rejection by size limit costs seconds. Counts are chosen so that the product of the minimum counts exceeds 2^64: an
/// implementation without overflow handling fails at once instead of expanding the pattern.
fn counts_part(args: &Args, run: &mut Run) -> i32 {
    let count = select(vec!["65536", "100000", "4294967295", "65536,", "100000,200000"]);
    let atom = select(vec!["a", "[a-c]", "ab", "[a-z]"]);
    let strat = (atom, proptest::collection::vec(count, 4..=5), any::<bool>(), prop::option::weighted(0.5, 0usize..50)).prop_map(|(atom, counts, skip, prio)| {
        let mut pat = atom.to_string();
        for c in counts {
            pat = format!("({pat}{{{c}}})");
        }
        let prio = prio.map(|p| format!(", priority = {p}")).unwrap_or_default();
        if skip {
            format!("#[derive(Logos)]\n#[logos(skip(\"{pat}\"{prio}))]\nenum T {{\n    #[token(\"q\")]\n    Q,\n}}\n")
        } else {
            format!("#[derive(Logos)]\nenum T {{\n    #[regex(\"{pat}\"{prio})]\n    A,\n    #[token(\"q\")]\n    Q,\n}}\n")
        }
    });
    let cases = if args.cases > 0 { args.cases.min(40) } else if args.thorough() { 40 } else { 2 };
    run.frozen = false;
    let check = |src: &String, run: &mut Run| -> Result<(), String> {
        run.eval(1);
        let d = derive_rust(src.clone());
        run.nontrivial(fnv(src.as_bytes()));
        run.count(if d.panic.is_some() { "counts_panicked" } else if d.errors.is_empty() { "counts_accepted" } else { "counts_rejected" }, 1);
        match &d.panic {
            Some(p) => Err(format!("derive panicked: {p}")),
            None => Ok(()),
        }
    };
    match drive(&strat.boxed(), cases, args.seed ^ 0xC19C, 50, run, |s, run| check(s, run)) {
        DriveResult::Pass => 0,
        DriveResult::Fail(src) => {
            let d = derive_rust(src.clone());
            let msg = d.panic.map(|p| format!("derive panicked: {p}")).unwrap_or_default();
            run.violations = 1;
            report_violation("C19", &args.replay_dir, &json!({"property": "C19", "tier": "G", "source": src, "must_reject": null, "fragments_ok": true, "findings": [{"property": "C19", "what": msg}]}));
            1
        }
        DriveResult::Abort(m) => {
            eprintln!("aborted: {m}");
            2
        }
    }
}

fn family_part(args: &Args, run: &mut Run) -> i32 {
    use model::gen::{callback_defs, conflict_defs, lexing_defs, literal_defs, pair_defs, subpattern_defs};
    let strat = prop_oneof![
        3 => lexing_defs(),
        4 => subpattern_defs().prop_map(|c| c.def),
        2 => literal_defs(),
        1 => conflict_defs(),
        1 => pair_defs(),
        1 => callback_defs().prop_map(|(d, _, _)| d),
    ];
    let cases = if args.cases > 0 { args.cases } else if args.thorough() { 60000 } else { 4000 };
    run.frozen = false;
    let check = |def: &model::spec::DefSpec, run: &mut Run| -> Result<(), String> {
        let src = model::prep::render(def);
        run.eval(1);
        let d = derive_rust(src.clone());
        if d.panic.is_none() {
            run.count(if d.errors.is_empty() { "family_accepted" } else { "family_rejected" }, 1);
        }
        if !def.subpatterns.is_empty() || !src.is_ascii() {
            run.nontrivial(fnv(src.as_bytes()));
        }
        judge(&src, None, true, &d)
    };
    match drive(&strat, cases, args.seed ^ 0xC19F, 600, run, |d, run| check(d, run)) {
        DriveResult::Pass => 0,
        DriveResult::Fail(def) => {
            let src = model::prep::render(&def);
            let d = derive_rust(src.clone());
            let msg = judge(&src, None, true, &d).err().unwrap_or_default();
            run.violations = 1;
            report_violation("C19", &args.replay_dir, &json!({"property": "C19", "tier": "G", "source": src, "must_reject": null, "fragments_ok": true, "findings": [{"property": "C19", "what": msg}]}));
            1
        }
        DriveResult::Abort(m) => {
            eprintln!("aborted: {m}");
            2
        }
    }
}
