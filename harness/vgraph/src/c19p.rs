//! C19 (tier P): the same attribute soup through the real procedural macro on the stable toolchain.
//! One module per generated enum in a scratch crate depending on /repo; `cargo check
//! --message-format=json`; diagnostics are attributed to modules by file name. Oracle: no
//! "proc-macro derive panicked"; the logos compile_error messages rustc reports for a module are
//! exactly those the library entry point produced for the same source (differential).

use std::collections::{BTreeMap, BTreeSet};
use std::path::PathBuf;
use std::process::Command;

use proptest::strategy::{Strategy, ValueTree};
use proptest::test_runner::{Config, RngSeed, TestRunner};
use serde_json::{json, Value};

use model::prep::derive_rust;
use model::run::{report_violation, Args, Run};
use model::fnv;

use crate::c19::{soup_strategy, Soup};

const PRELUDE: &str = "#![allow(unused, dead_code)]\nuse logos::Logos;\n#[derive(Default, Debug, Clone, PartialEq)]\npub struct MyError;\nimpl MyError { pub fn at(_: std::ops::Range<usize>) -> Self { MyError } pub fn new(_: std::ops::Range<usize>) -> Self { MyError } }\n#[derive(Default)]\npub struct MyExtras;\npub mod my { pub use ::logos; }\n";

/// extra deterministic cases that only misbehave in the real proc-macro (span operations)
const FIXED: &[&str] = &[
    "#[derive(Logos)]\nenum T {\n    #[token(\"a\", callback = f, callback = g)]\n    A,\n}\n",
    "#[derive(Logos)]\n#[logos(error(MyError, callback = f, callback = g))]\nenum T {\n    #[token(\"a\")]\n    A,\n}\n",
    "#[derive(Logos)]\n#[logos(skip(\"b\", callback = f, callback = g))]\nenum T {\n    #[token(\"a\")]\n    A,\n}\n",
    "#[derive(Logos)]\nenum T {\n    #[regex(\"a\", f, callback = g)]\n    A,\n}\n",
    "#[derive(Logos)]\nenum T {\n    A(),\n}\n",
    "#[derive(Logos)]\n#[logos(error = A, error = B)]\nenum T {\n    #[token(\"a\")]\n    A,\n}\n",
    "#[derive(Logos)]\n#[logos(extras = A, extras = B)]\n#[logos(utf8 = true, utf8 = false)]\nenum T {\n    #[token(\"a\")]\n    A,\n}\n",
    "#[derive(Logos)]\n#[logos(subpattern x = \"a\", subpattern x = \"b\")]\nenum T<'a, 'b> {\n    #[token(\"a\", priority = 1, priority = 2)]\n    A(&'a str),\n}\n",
    "#[derive(Logos)]\n#[logos(lifetime = 'a, lifetime = 'b)]\nenum T<'a, 'b> {\n    #[token(\"a\")]\n    A(&'a str, &'b str),\n}\n",
];

fn run_cargo(dir: &PathBuf) -> Result<Vec<Value>, String> {
    let out = Command::new("cargo")
        .args(["check", "--offline", "--message-format=json", "--target-dir"])
        .arg(model::run::root().join("work/target-pm"))
        .current_dir(dir)
        .env("CARGO_NET_OFFLINE", "true")
        .env_remove("RUSTFLAGS")
        .output()
        .map_err(|e| format!("cannot run cargo: {e}"))?;
    let mut msgs = Vec::new();
    for line in String::from_utf8_lossy(&out.stdout).lines() {
        if let Ok(v) = serde_json::from_str::<Value>(line) {
            if v["reason"] == "compiler-message" && v["target"]["name"] == "pmcrate" {
                msgs.push(v["message"].clone());
            }
        }
    }
    if msgs.is_empty() && !out.status.success() {
        let err = String::from_utf8_lossy(&out.stderr);
        if !err.contains("could not compile `pmcrate`") {
            return Err(format!("cargo check failed outside the scratch crate: {}", &err[err.len().saturating_sub(1500)..]));
        }
    }
    Ok(msgs)
}

fn write_crate(dir: &PathBuf, sources: &[String]) {
    let _ = std::fs::remove_dir_all(dir.join("src"));
    std::fs::create_dir_all(dir.join("src")).unwrap();
    std::fs::write(
        dir.join("Cargo.toml"),
        "[package]\nname = \"pmcrate\"\nversion = \"0.1.0\"\nedition = \"2021\"\n\n[workspace]\n\n[dependencies]\nlogos = { path = \"/repo\" }\n",
    )
    .unwrap();
    if !dir.join("Cargo.lock").exists() {
        let _ = std::fs::copy(model::run::root().join("harness/Cargo.lock"), dir.join("Cargo.lock"));
    }
    let mut lib = String::from("#![allow(unused)]\n");
    for (i, s) in sources.iter().enumerate() {
        lib.push_str(&format!("pub mod m{i};\n"));
        std::fs::write(dir.join(format!("src/m{i}.rs")), format!("{PRELUDE}{s}")).unwrap();
    }
    std::fs::write(dir.join("src/lib.rs"), lib).unwrap();
}

fn module_of(msg: &Value) -> Option<usize> {
    for sp in msg["spans"].as_array()? {
        let f = sp["file_name"].as_str()?;
        if let Some(rest) = f.strip_prefix("src/m") {
            if let Some(n) = rest.strip_suffix(".rs") {
                return n.parse().ok();
            }
        }
    }
    None
}

/// returns per module (panic messages, set of error messages)
fn classify(msgs: &[Value], n: usize) -> (Vec<Vec<String>>, Vec<BTreeSet<String>>) {
    let mut panics = vec![Vec::new(); n];
    let mut errors = vec![BTreeSet::new(); n];
    for m in msgs {
        if m["level"] != "error" {
            continue;
        }
        let Some(i) = module_of(m) else { continue };
        if i >= n {
            continue;
        }
        let text = m["message"].as_str().unwrap_or("").to_string();
        if text.contains("proc-macro derive panicked") || text.contains("proc macro panicked") {
            let help: Vec<String> = m["children"].as_array().map(|c| c.iter().filter_map(|x| x["message"].as_str().map(|s| s.to_string())).collect()).unwrap_or_default();
            panics[i].push(format!("{text} {help:?}"));
        } else {
            errors[i].insert(text);
        }
    }
    (panics, errors)
}

pub fn main(args: &Args) -> i32 {
    let mut run = Run::new(
        "C19",
        &args.tier,
        args.seed,
        "tier P: the C19 attribute soup (same generator) plus fixed duplicate-argument cases, each as a module of a scratch crate compiled with the real proc-macro on the stable toolchain (cargo check, JSON diagnostics); oracle: no 'proc-macro derive panicked'; every compile_error message the library entry point produced for the source is reported by rustc for that module, and a module the library accepts gets no logos diagnostic; non-trivial = distinct modules with a malformed/duplicated attribute or must-reject item",
    );
    run.assumptions = vec!["diagnostics are attributed to modules through the file name of their primary spans".into()];
    let dir = model::run::root().join("work/pm-crate");
    let mut sources: Vec<String> = Vec::new();
    let mut meta: Vec<(Option<&'static str>, bool)> = Vec::new();
    if let Some(path) = &args.replay {
        let v: Value = serde_json::from_str(&std::fs::read_to_string(path).unwrap()).unwrap();
        sources.push(v["source"].as_str().unwrap().to_string());
        meta.push((None, true));
    } else {
        for s in FIXED {
            sources.push(s.to_string());
            meta.push((None, true));
        }
        let n = if args.cases > 0 { args.cases as usize } else if args.thorough() { 4000 } else { 600 };
        let mut runner = TestRunner::new(Config { rng_seed: RngSeed::Fixed(args.seed ^ 0xC19B), failure_persistence: None, ..Config::default() });
        let strat = soup_strategy();
        for _ in 0..n {
            let s: Soup = strat.new_tree(&mut runner).unwrap().current();
            sources.push(s.render());
            meta.push((s.must_reject, s.malformed));
        }
    }
    // the library verdict for each source (under catch_unwind; a library panic is tier G's finding)
    std::panic::set_hook(Box::new(|_| {}));
    let lib: Vec<_> = sources.iter().map(|s| derive_rust(s.clone())).collect();
    let _ = std::panic::take_hook();
    let mut code = 0;
    // chunks keep rustc's output manageable
    let chunk = 400;
    let mut base = 0;
    while base < sources.len() && code == 0 {
        let end = (base + chunk).min(sources.len());
        write_crate(&dir, &sources[base..end]);
        let msgs = match run_cargo(&dir) {
            Ok(m) => m,
            Err(e) => {
                eprintln!("{e}");
                return 2;
            }
        };
        let (panics, errors) = classify(&msgs, end - base);
        for i in 0..(end - base) {
            let gi = base + i;
            run.eval(1);
            if meta[gi].0.is_some() || meta[gi].1 {
                run.nontrivial(fnv(sources[gi].as_bytes()));
            }
            let mut bad: Option<String> = None;
            if let Some(p) = panics[i].first() {
                bad = Some(format!("the real proc-macro panicked: {p}"));
            } else if meta[gi].1 && errors[i].iter().any(|e| e.contains("unparsable tokens")) {
                // a malformed user fragment (type / path / expression) was pasted through; rustc rejects the
                // expansion as a whole - rejected, though not by a logos diagnostic; not judged further
                run.count("unparsable_expansion_from_malformed_fragment(not judged)", 1);
            } else if lib[gi].panic.is_none() {
                let expected: BTreeSet<String> = lib[gi].errors.iter().cloned().collect();
                let missing: Vec<&String> = expected.iter().filter(|e| !errors[i].contains(*e)).collect();
                if !missing.is_empty() {
                    bad = Some(format!("compile_error diagnostics of the library path missing from rustc's output for this module: {missing:?} (rustc reported {:?})", errors[i]));
                }
                if meta[gi].0.is_some() && errors[i].is_empty() {
                    bad = Some(format!("must-reject definition ({}) compiled without any error", meta[gi].0.unwrap()));
                }
            }
            run.count(if lib[gi].errors.is_empty() && lib[gi].panic.is_none() { "library_accepted" } else { "library_rejected" }, 1);
            if errors[i].is_empty() && panics[i].is_empty() {
                run.count("modules_compiled_clean", 1);
            }
            run.sample(|| json!({"source": sources[gi], "rustc_errors": errors[i].iter().take(4).collect::<Vec<_>>(), "library_compile_errors": lib[gi].errors.len()}));
            if let Some(msg) = bad {
                if args.replay.is_some() {
                    println!("replay: {msg}");
                    println!("VIOLATION property=C19 replay={}", args.replay.as_ref().unwrap().display());
                } else {
                    run.violations = 1;
                    report_violation("C19", &args.replay_dir, &json!({"property": "C19", "tier": "P", "source": sources[gi], "findings": [{"property": "C19", "what": msg}]}));
                }
                code = 1;
                break;
            }
        }
        base = end;
    }
    if args.replay.is_some() && code == 0 {
        println!("replay: no violation of C19 (tier P)");
    }
    let _ = BTreeMap::<u8, u8>::new();
    run.write_evidence(&args.evidence);
    code
}
