//! C08: equal-priority overlaps <=> compile error. Oracle: walk of the product of the per-pattern
//! reference matchers; T_ref = sets (size >= 2) of patterns sharing the top priority among those
//! matching the same string (in the same one-symbol context).

use std::collections::{BTreeSet, HashMap, VecDeque};

use logos_codegen::verif::GraphErrorDump;
use regex_automata::dfa::Automaton;
use serde_json::json;

use model::gen::conflict_defs;
use model::prep::derive_def;
use model::reference::{Matcher, RefLexer};
use model::run::{drive, report_violation, Args, DriveResult, Run};
use model::spec::DefSpec;
use model::fnv;

/// per pattern: (next state, matched flag) for a symbol; state usize::MAX = dead.
fn step(r: &RefLexer, cur: &[usize], sym: Option<u8>) -> (Vec<usize>, Vec<bool>) {
    let mut next = Vec::with_capacity(cur.len());
    let mut m = Vec::with_capacity(cur.len());
    for (pt, &c) in r.pats.iter().zip(cur.iter()) {
        if c == usize::MAX {
            next.push(usize::MAX);
            m.push(false);
            continue;
        }
        match &pt.matcher {
            Matcher::Exact(w) => {
                // delayed like the DFA: the match is flagged by the symbol after the last byte
                m.push(c == w.len());
                match sym {
                    Some(b) if c < w.len() && w[c] == b => next.push(c + 1),
                    _ => next.push(usize::MAX),
                }
            }
            Matcher::Dfa(d) => {
                let t = match sym {
                    Some(b) => d.dfa.next_state(d.ids[c], b),
                    None => d.dfa.next_eoi_state(d.ids[c]),
                };
                m.push(d.dfa.is_match_state(t));
                if d.dfa.is_dead_state(t) || sym.is_none() {
                    next.push(usize::MAX);
                } else {
                    next.push(d.idx(t));
                }
            }
        }
    }
    (next, m)
}

pub struct TieResult {
    pub ties: BTreeSet<Vec<usize>>,
    /// some string is matched by >= 2 patterns (any priorities)
    pub overlap: bool,
    pub capped: bool,
    pub tuples: usize,
    /// witness string per tie set
    pub witness: HashMap<Vec<usize>, Vec<u8>>,
}

pub fn reference_ties(r: &RefLexer, prio: &[usize], cap: usize) -> TieResult {
    let start: Vec<usize> = vec![0; r.pats.len()];
    let mut seen: HashMap<Vec<usize>, Vec<u8>> = HashMap::new();
    let mut q = VecDeque::new();
    seen.insert(start.clone(), vec![]);
    q.push_back(start);
    let mut res = TieResult { ties: BTreeSet::new(), overlap: false, capped: false, tuples: 0, witness: HashMap::new() };
    while let Some(cur) = q.pop_front() {
        res.tuples += 1;
        let w = seen[&cur].clone();
        let mut syms: Vec<Option<u8>> = (0..=255u8).map(Some).collect();
        syms.push(None);
        let mut done_sig: BTreeSet<(Vec<usize>, Vec<bool>)> = BTreeSet::new();
        for sym in syms {
            let (next, m) = step(r, &cur, sym);
            if !done_sig.insert((next.clone(), m.clone())) {
                continue;
            }
            // the string read so far (w) is matched by the flagged patterns, in the context of `sym`
            if !w.is_empty() {
                let matched: Vec<usize> = (0..m.len()).filter(|&i| m[i]).collect();
                if matched.len() >= 2 {
                    res.overlap = true;
                    let top = matched.iter().map(|&i| prio[i]).max().unwrap();
                    let t: Vec<usize> = matched.into_iter().filter(|&i| prio[i] == top).collect();
                    if t.len() >= 2 && res.ties.insert(t.clone()) {
                        res.witness.insert(t, w.clone());
                    }
                }
            }
            if let Some(b) = sym {
                if next.iter().any(|&s| s != usize::MAX) && !seen.contains_key(&next) {
                    if seen.len() >= cap {
                        res.capped = true;
                        continue;
                    }
                    let mut w2 = w.clone();
                    w2.push(b);
                    seen.insert(next.clone(), w2);
                    q.push_back(next);
                }
            }
        }
    }
    res
}

fn check(def: &DefSpec, run: &mut Run) -> Result<(), String> {
    let d = derive_def(def);
    run.eval(1);
    if d.panic.is_some() {
        run.count("derive_panicked(C19 business)", 1);
        return Ok(());
    }
    let Some(g) = d.graph else {
        run.count("no_graph", 1);
        return Ok(());
    };
    if g.errors.iter().any(|e| !matches!(e, GraphErrorDump::Disambiguation(_))) {
        run.count("other_graph_errors", 1);
        return Ok(());
    }
    let other_errors: Vec<&String> = d.errors.iter().filter(|m| !m.contains("can match simultaneously")).collect();
    if !other_errors.is_empty() {
        run.count("other_rejection_cause", 1);
        return Ok(());
    }
    let Ok(r) = RefLexer::build(def) else {
        run.count("no_reference", 1);
        return Ok(());
    };
    if g.leaves.len() != r.pats.len() {
        return Err(format!("leaf count mismatch {} vs {}", g.leaves.len(), r.pats.len()));
    }
    // explicit priorities as written in the definition (that they arrive unchanged is C09's clause; a tie verdict computed
    // from altered values would agree with the derive about a tie that the definition does not contain), defaults as captured
    let written = def.leaves();
    let prio: Vec<usize> = g.leaves.iter().enumerate().map(|(i, l)| written[i].0.priority.unwrap_or(l.priority)).collect();
    let t = reference_ties(&r, &prio, 30000);
    if t.capped {
        run.count("product_capped(inconclusive)", 1);
        return Ok(());
    }
    run.count("product_tuples", t.tuples as u64);
    let logos_sets: BTreeSet<Vec<usize>> = g
        .errors
        .iter()
        .filter_map(|e| match e {
            GraphErrorDump::Disambiguation(v) => {
                let mut v = v.clone();
                v.sort();
                Some(v)
            }
            _ => None,
        })
        .collect();
    let rejected = !d.errors.is_empty();
    if t.overlap {
        run.nontrivial(fnv(d.rust.as_bytes()));
        run.count("defs_with_overlap", 1);
    }
    if rejected {
        run.count("defs_rejected_for_ambiguity", 1);
    } else {
        run.count("defs_accepted", 1);
    }
    if !t.ties.is_empty() {
        run.count("defs_with_reference_tie", 1);
    }
    run.sample(|| json!({"definition": d.rust, "reference_tie_sets": t.ties, "derive_reported": logos_sets, "rejected": rejected}));
    if t.ties.is_empty() && rejected {
        return Err(format!("derive reports an ambiguity {:?} but no string is matched by two top-priority patterns", logos_sets));
    }
    if !t.ties.is_empty() && !rejected {
        let (set, w) = t.witness.iter().next().unwrap();
        return Err(format!("patterns {set:?} all match {:?} at the same top priority, but the derive accepted the definition (silent choice)", model::show(w)));
    }
    // Judged on the diagnostics, not on the internal shape of the graph errors: for every reference tie set each
    // member must be named in a diagnostic together with all other members of that set (matched by the source
    // literal of the pattern, so that the wording of the message is free).
    let amb: Vec<&String> = d.errors.iter().filter(|m| m.contains("can match simultaneously") || m.contains("priority")).collect();
    for set in &t.ties {
        for &leaf in set {
            let me = &g.leaves[leaf].source;
            let others: Vec<&String> = set.iter().filter(|&&o| o != leaf).map(|&o| &g.leaves[o].source).collect();
            let named = amb.iter().any(|m| {
                // the diagnostic for `leaf` names the pattern first, then the others
                m.find(me.as_str()).map(|at| others.iter().all(|o| m[at..].contains(o.as_str()) || m.contains(o.as_str()))).unwrap_or(false)
            });
            if !named {
                return Err(format!(
                    "patterns {:?} tie at the top priority on {}, but no diagnostic names {} together with {:?} (diagnostics: {:?})",
                    set,
                    model::show(t.witness.get(set).map(|w| w.as_slice()).unwrap_or(&[])),
                    g.leaves[leaf].display,
                    others,
                    d.errors
                ));
            }
        }
    }
    // no spurious blame: a pattern that ties with nothing at its priority must not get an ambiguity diagnostic
    // (checked through the captured sets, which only say which leaves were reported)
    for set in &logos_sets {
        for &leaf in set {
            if !t.ties.iter().any(|r| r.contains(&leaf)) {
                return Err(format!("the derive blames {} for an ambiguity, but no string is matched by it and another pattern at the same top priority", g.leaves[leaf].display));
            }
        }
    }
    Ok(())
}

pub fn main(args: &Args) -> i32 {
    let mut run = Run::new(
        "C08",
        &args.tier,
        args.seed,
        "proptest definitions (conflict family: 2-6 patterns over {a,b,c,A}, priorities default or explicit 1..4, ignore(case), look-ahead); oracle = breadth-first walk of the product of per-pattern reference matchers computing the sets of top-priority patterns matching the same string; expected: derive rejects iff a tie set exists; every member of every set is named in a diagnostic together with all other members (matched by source literal); no pattern outside every tie set is blamed; non-trivial = distinct definitions where some string is matched by >= 2 patterns",
    );
    run.assumptions = vec![
        "priorities are the captured leaf priorities (their default values are C09's business)".into(),
        "definitions rejected for another reason, or whose product exceeds 30000 tuples, are skipped and counted".into(),
    ];
    if let Some(path) = &args.replay {
        let v: serde_json::Value = serde_json::from_str(&std::fs::read_to_string(path).unwrap()).unwrap();
        let def: DefSpec = serde_json::from_value(v["def"].clone()).unwrap();
        let mut scratch = Run::new("C08", "quick", 0, "");
        return match check(&def, &mut scratch) {
            Ok(()) => {
                println!("replay: no violation of C08");
                0
            }
            Err(m) => {
                println!("replay: {m}");
                println!("VIOLATION property=C08 replay={}", path.display());
                1
            }
        };
    }
    // harvested family: the definitions that ship with the repository (accepted ones must be free of silent ties, the
    // must-fail test data must be rejected for the ties the product walk finds)
    for h in model::harvest::harvest() {
        run.count("harvested_defs", 1);
        if let Err(msg) = check(&h.def, &mut run) {
            run.violations = 1;
            report_violation("C08", &args.replay_dir, &json!({"property": "C08", "tier": "G", "origin": h.origin, "def": h.def, "rendered_rust": model::prep::render(&h.def), "findings": [{"property": "C08", "what": msg}]}));
            run.write_evidence(&args.evidence);
            return 1;
        }
    }
    let cases = if args.cases > 0 { args.cases } else if args.thorough() { 80000 } else { 8000 };
    let mut res = drive(&conflict_defs(), cases, args.seed ^ 0xC08, 600, &mut run, |def, run| check(def, run));
    if matches!(res, DriveResult::Pass) {
        // wide definitions: many patterns matching in the same state
        run.frozen = false;
        res = drive(&model::gen::wide_conflict_defs(), cases / 8, args.seed ^ 0xC08B, 600, &mut run, |def, run| {
            run.count("wide_defs", 1);
            check(def, run)
        });
    }
    let code = match res {
        DriveResult::Pass => 0,
        DriveResult::Fail(def) => {
            let mut scratch = Run::new("C08", "quick", 0, "");
            let msg = check(&def, &mut scratch).err().unwrap_or_default();
            run.violations = 1;
            report_violation("C08", &args.replay_dir, &json!({"property": "C08", "tier": "G", "def": def, "rendered_rust": model::prep::render(&def), "findings": [{"property": "C08", "what": msg}]}));
            1
        }
        DriveResult::Abort(m) => {
            eprintln!("aborted: {m}");
            2
        }
    };
    run.write_evidence(&args.evidence);
    code
}
