#!/bin/bash
# runs every thorough check once (long); prints one line per check
cd "$(dirname "$0")"
./check --setup 2>&1 | tail -2
WORST=0
for id in C08 C09 C10 C11 C18 C19 C16 C17 C14 C15 C13 C12 C06 C04 C20 C07 C02 C03 C05 C01; do
  S=$(date +%s); OUT=$(VERIF_BATCHES=${VERIF_BATCHES:-4} ./check $id --tier thorough 2>/tmp/thorough_$id.err); RC=$?
  echo "$id thorough exit=$RC $(( $(date +%s) - S ))s"
  if [ $RC -ne 0 ]; then echo "$OUT" | grep VIOLATION | head -3; tail -3 /tmp/thorough_$id.err; [ $RC -gt $WORST ] && WORST=$RC; fi
done
exit $WORST
