//! Generates the compiled subjects of the fuzz_lex target: a fixed-seed sample of core-family
//! definitions accepted by the current tree, rendered exactly like the tier X subjects.
use proptest::strategy::{Strategy, ValueTree};
use proptest::test_runner::{Config, RngSeed, TestRunner};

use model::gen::lexing_defs;
use model::prep::prepare;
use model::set::{path_defs, render_module, stress_defs, SubjectDef, SubjectSet};

fn main() {
    println!("cargo:rerun-if-changed=build.rs");
    println!("cargo:rerun-if-changed=/repo/logos-codegen/src");
    println!("cargo:rerun-if-changed=/repo/tests/tests");
    let mut runner = TestRunner::new(Config { rng_seed: RngSeed::Fixed(0xF022), failure_persistence: None, ..Config::default() });
    let strat = lexing_defs();
    let mut defs: Vec<SubjectDef> = Vec::new();
    let mut tries = 0;
    while defs.len() < 28 && tries < 600 {
        tries += 1;
        let def = strat.new_tree(&mut runner).unwrap().current();
        let Ok(p) = prepare(&def) else { continue };
        if p.graph.states.len() > 300 {
            continue;
        }
        let skip_log = defs.len() % 2 == 0;
        let twin = { let mut t = def.clone(); t.utf8 = false; def.utf8 && prepare(&t).is_ok() };
        defs.push(SubjectDef { family: "core".into(), def, skip_log, has_value: vec![], error_cb: false, twin });
    }
    defs.extend(stress_defs().into_iter().filter(|d| d.family == "stress"));
    // the fixed members of the core family (emitter / graph paths), when the current tree accepts them
    for sd in path_defs() {
        if prepare(&sd.def).is_ok() {
            let twin = { let mut t = sd.def.clone(); t.utf8 = false; sd.def.utf8 && prepare(&t).is_ok() };
            defs.push(SubjectDef { twin, ..sd });
        }
    }
    // harvested members: the largest definitions that ship with the repository (model::harvest), every fourth of the rest
    let mut hv: Vec<_> = model::harvest::harvest().into_iter().filter_map(|h| prepare(&h.def).ok().map(|p| (p.graph.states.len(), h))).filter(|(n, _)| *n <= 400).collect();
    hv.sort_by(|a, b| b.0.cmp(&a.0).then(a.1.origin.cmp(&b.1.origin)));
    for (i, (_, h)) in hv.into_iter().enumerate() {
        if i < 8 || i % 4 == 0 {
            let twin = { let mut t = h.def.clone(); t.utf8 = false; h.def.utf8 && prepare(&t).is_ok() };
            defs.push(SubjectDef { family: "core".into(), def: h.def, skip_log: i % 2 == 0, has_value: vec![], error_cb: false, twin });
        }
    }
    for d in defs.iter_mut() {
        d.family = "core".into();
    }
    let mut src = String::new();
    let mut names = Vec::new();
    for (i, sd) in defs.iter().enumerate() {
        src.push_str(&render_module(i, sd));
        names.push(i);
    }
    src.push_str("pub fn subjects() -> Vec<&'static dyn subject_rt::Subject> {\n    vec![");
    for i in names {
        src.push_str(&format!("&d{i}::S, "));
    }
    src.push_str("]\n}\n");
    let out = std::env::var("OUT_DIR").unwrap();
    std::fs::write(format!("{out}/subjects.rs"), src).unwrap();
    let set = SubjectSet { seed: 0, tier: "fuzz".into(), defs };
    std::fs::write(format!("{out}/defs.json"), serde_json::to_string(&set).unwrap()).unwrap();
}
