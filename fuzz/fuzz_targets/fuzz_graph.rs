#![no_main]
//! Coverage-guided fuzzing of the derive's graph construction with semantic oracles: bytes ->
//! (definition decoded with `arbitrary`: 1-5 patterns over a small alphabet with nested alternation /
//! repetition / classes / look-ahead, priorities, skips) + input; the captured graph is interpreted
//! and judged against the reference lexer (C01, C02, C03 incl. structural invariants), and the
//! accept/reject verdict against the product tie oracle is left to C08's own check.
use std::sync::atomic::{AtomicU64, Ordering};
use std::sync::OnceLock;

use arbitrary::Unstructured;
use libfuzzer_sys::fuzz_target;
use model::gen::{Ast, Rep};
use model::graph::GraphLexer;
use model::judge::{judge, tiling};
use model::prep::{prepare, PrepError};
use model::spec::{DefSpec, LitSpec, PatSpec};

const CHARS: &[char] = &['a', 'b', 'c', 'x', '0', '1', '-', '_', '.', ' ', '\n', 'é', 'ß', 'σ', '日', 'A', 'k'];
const CLASSES: &[&str] = &["[a-c]", "[ac]", "[a-ce-g]", "[a-cx-z0]", "[^a]", "\\d", "\\w", "\\s", ".", "(?s:.)", "[0-9]", "[a-z]", "[^\\n]", "[\\x00-ac-z]", "[b-x]", "[^ab]"];
const BYTE_CLASSES: &[&str] = &["(?-u:[\\x80-\\xff])", "(?-u:[^a])", "(?-u:.)", "(?-u:[^ac])", "(?-u:[\\x00-ac-z])", "(?-u:\\xFF)", "(?-u:\\xC3)"];
const LOOKS: &[&str] = &["$", "\\z", "(?m:$)", "(?-u:\\b)", "(?-u:\\B)"];

fn ast(u: &mut Unstructured, depth: u32, bytes_ok: bool) -> arbitrary::Result<Ast> {
    let k = if depth == 0 { u.int_in_range(0..=2u8)? } else { u.int_in_range(0..=8u8)? };
    Ok(match k {
        0 | 1 => {
            let n = u.int_in_range(1..=3usize)?;
            let mut s = String::new();
            for _ in 0..n {
                s.push(*u.choose(CHARS)?);
            }
            Ast::Lit(s)
        }
        2 => {
            if bytes_ok && u.ratio(1, 4)? {
                Ast::Class(u.choose(BYTE_CLASSES)?)
            } else {
                Ast::Class(u.choose(CLASSES)?)
            }
        }
        3 | 4 => {
            let n = u.int_in_range(2..=3usize)?;
            Ast::Cat((0..n).map(|_| ast(u, depth - 1, bytes_ok)).collect::<arbitrary::Result<Vec<_>>>()?)
        }
        5 => {
            let n = u.int_in_range(2..=3usize)?;
            Ast::Alt((0..n).map(|_| ast(u, depth - 1, bytes_ok)).collect::<arbitrary::Result<Vec<_>>>()?)
        }
        6 | 7 => {
            let (min, max) = *u.choose(&[(0u32, None), (1, None), (0, Some(1u32)), (2, Some(2)), (1, Some(3)), (2, None)])?;
            Ast::Rep(Box::new(ast(u, depth - 1, bytes_ok)?), Rep { min, max, lazy: u.ratio(1, 5)?, counted: false })
        }
        _ => Ast::Cat(vec![ast(u, depth - 1, bytes_ok)?, Ast::Look(u.choose(LOOKS)?)]),
    })
}

static EXECS: AtomicU64 = AtomicU64::new(0);
static ACCEPTED: AtomicU64 = AtomicU64::new(0);

fuzz_target!(|data: &[u8]| {
    let mut u = Unstructured::new(data);
    let Ok(utf8) = u.arbitrary::<bool>() else { return };
    let Ok(npat) = u.int_in_range(1..=5usize) else { return };
    let mut variants = Vec::new();
    let mut skips = Vec::new();
    for i in 0..npat {
        let Ok(a) = ast(&mut u, 3, !utf8) else { return };
        let a = if a.nullable() { Ast::Cat(vec![Ast::Lit("a".into()), a]) } else { a };
        let mut p = PatSpec::regex(LitSpec::str(a.text()));
        p.allow_greedy = true;
        p.priority = match u.int_in_range(0..=3u8).unwrap_or(0) {
            0 => None,
            _ => Some(1 + i * 3 + u.int_in_range(0..=2usize).unwrap_or(0)),
        };
        if i == 0 && u.ratio(1, 3).unwrap_or(false) {
            skips.push(p);
        } else {
            variants.push(vec![p]);
        }
    }
    if variants.is_empty() {
        variants.push(vec![PatSpec::token(LitSpec::str("\u{3}"))]);
    }
    let def = DefSpec { utf8, subpatterns: vec![], skips, variants };
    let n = u.int_in_range(0..=24usize).unwrap_or(0);
    let raw = u.bytes(n.min(u.len())).unwrap_or(&[]).to_vec();
    let input: Vec<u8> = if utf8 { String::from_utf8_lossy(&raw).into_owned().into_bytes() } else { raw };

    let execs = EXECS.fetch_add(1, Ordering::Relaxed) + 1;
    let p = match prepare(&def) {
        Ok(p) => p,
        Err(PrepError::Panic(m)) => panic!("FINDING property=C19 derive panicked: {m}\n{}", model::prep::render(&def)),
        Err(_) => return,
    };
    let acc = ACCEPTED.fetch_add(1, Ordering::Relaxed) + 1;
    if execs % 1024 == 0 {
        if let Ok(path) = std::env::var("VERIF_FUZZ_STATS") {
            let _ = std::fs::write(path, format!("{{\"execs\": {execs}, \"accepted_definitions\": {acc}}}"));
        }
    }
    static ONLY: OnceLock<Option<String>> = OnceLock::new();
    let only = ONLY.get_or_init(|| std::env::var("VERIF_FUZZ_PROP").ok());
    // structural invariants (C03)
    let g = &p.graph;
    let root = &g.states[g.root];
    let mut findings: Vec<(&'static str, String)> = Vec::new();
    if root.early.is_some() || root.accept.is_some() {
        findings.push(("C03", "root state records a match".into()));
    }
    let mut gl = GraphLexer::new(g, &input, utf8, false);
    let (items, ended) = gl.run();
    let none_again = ended && gl.next().is_none();
    let skipped: Vec<(usize, usize)> = gl.skips.iter().map(|&(a, b, _)| (a, b)).collect();
    let (jf, _) = judge(&p.reflex, &p.prio, &input, &items, ended, &|leaf| leaf);
    for x in jf {
        findings.push((x.property, x.what));
    }
    for x in tiling(input.len(), &items, Some(&skipped), ended, none_again) {
        findings.push((x.property, x.what));
    }
    if let Some((prop, what)) = findings.into_iter().find(|(pr, _)| only.as_deref().map(|o| o == *pr).unwrap_or(true)) {
        panic!("FINDING property={prop} input={} : {what}\n{}", model::show(&input), p.rust);
    }
});
