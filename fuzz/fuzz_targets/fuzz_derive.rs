#![no_main]
//! Fuzzing the derive (library entry point): bytes -> attribute soup decoded with `arbitrary`
//! from pools of well-formed and malformed attribute forms plus free-form regex/token literals.
use arbitrary::Unstructured;
use libfuzzer_sys::fuzz_target;
use model::prep::derive_rust;
use model::soup::{render_soup, ENUM_ATTRS_BAD, ENUM_ATTRS_OK, FIELDS, GENERICS, MUST_REJECT_ATTRS, VAR_ATTRS_BAD, VAR_ATTRS_OK};

fuzz_target!(|data: &[u8]| {
    let mut u = Unstructured::new(data);
    let Ok(generics) = u.choose(GENERICS) else { return };
    let mut enum_attrs: Vec<String> = Vec::new();
    let mut must: Option<&'static str> = None;
    for _ in 0..u.int_in_range(0..=4).unwrap_or(0) {
        let bad = u.ratio(1, 5).unwrap_or(false);
        let pool = if bad { ENUM_ATTRS_BAD } else { ENUM_ATTRS_OK };
        if let Ok(a) = u.choose(pool) {
            enum_attrs.push(a.to_string());
        }
    }
    let mut variants: Vec<(Vec<String>, String)> = Vec::new();
    for _ in 0..u.int_in_range(1..=4).unwrap_or(1) {
        let mut attrs = Vec::new();
        for _ in 0..u.int_in_range(0..=3).unwrap_or(0) {
            match u.int_in_range(0..=9).unwrap_or(0) {
                0 => {
                    if let Ok(a) = u.choose(VAR_ATTRS_BAD) {
                        attrs.push(a.to_string());
                    }
                }
                1 => {
                    if let Ok((a, r)) = u.choose(MUST_REJECT_ATTRS) {
                        attrs.push(a.to_string());
                        must = Some(r);
                    }
                }
                2 | 3 => {
                    // free-form pattern text from the fuzzer
                    let n = u.int_in_range(0..=12).unwrap_or(0);
                    let bytes = u.bytes(n).unwrap_or(&[]);
                    const ALPHA: &[char] = &['a', 'b', '.', '*', '+', '?', '(', ')', '[', ']', '|', '\\', '^', '$', '-', '{', '}', '2', ',', 'x', 'é', ':', 'i'];
                    let text: String = bytes.iter().map(|b| ALPHA[*b as usize % ALPHA.len()]).collect();
                    attrs.push(format!("#[regex({:?})]", text));
                }
                _ => {
                    if let Ok(a) = u.choose(VAR_ATTRS_OK) {
                        attrs.push(a.to_string());
                    }
                }
            }
        }
        let fields = u.choose(FIELDS).map(|f| f.to_string()).unwrap_or_default();
        variants.push((attrs, fields));
    }
    let src = render_soup(generics, &enum_attrs, &variants);
    let d = derive_rust(src.clone());
    if let Some(p) = &d.panic {
        panic!("FINDING property=C19 derive panicked: {p}\n{src}");
    }
    if let Some(reason) = must {
        if d.errors.is_empty() {
            panic!("FINDING property=C19 must-reject ({reason}) accepted\n{src}");
        }
    }
    if d.errors.is_empty() {
        if let Some(g) = &d.graph {
            let root = &g.states[g.root];
            if root.early.is_some() || root.accept.is_some() || !g.errors.is_empty() {
                panic!("FINDING property=C19 accepted definition with an unsound graph\n{src}");
            }
        }
    }
});
