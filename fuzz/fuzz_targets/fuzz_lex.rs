#![no_main]
//! Coverage-guided fuzzing of compiled derived lexers (ASan build): bytes -> (definition, input);
//! the semantic oracles of C01/C02/C03/C04/C05/C07/C12/C20 run inside the target.
use std::sync::atomic::{AtomicU64, Ordering};
use std::sync::OnceLock;

use libfuzzer_sys::fuzz_target;
use model::prep::{prepare, Prepared};
use model::set::SubjectSet;
use subject_rt::Subject;

include!(concat!(env!("OUT_DIR"), "/subjects.rs"));

struct State {
    subjects: Vec<&'static dyn Subject>,
    set: SubjectSet,
    prepared: Vec<Option<Prepared>>,
}

static STATE: OnceLock<State> = OnceLock::new();
static EXECS: AtomicU64 = AtomicU64::new(0);
static NONTRIVIAL: AtomicU64 = AtomicU64::new(0);

fn state() -> &'static State {
    STATE.get_or_init(|| {
        let set: SubjectSet = serde_json::from_str(include_str!(concat!(env!("OUT_DIR"), "/defs.json"))).unwrap();
        let prepared = set.defs.iter().map(|d| prepare(&d.def).ok()).collect();
        State { subjects: subjects(), set, prepared }
    })
}

fuzz_target!(|data: &[u8]| {
    if data.len() < 2 {
        return;
    }
    let st = state();
    let idx = data[0] as usize % st.subjects.len();
    let with_partial = data[1] & 1 == 1;
    let sd = &st.set.defs[idx];
    let Some(p) = &st.prepared[idx] else { return };
    let raw = &data[2..];
    let owned;
    let input: &[u8] = if sd.def.utf8 {
        match std::str::from_utf8(raw) {
            Ok(_) => raw,
            Err(_) => {
                owned = String::from_utf8_lossy(raw).into_owned().into_bytes();
                &owned
            }
        }
    } else {
        raw
    };
    if input.len() > 96 {
        return;
    }
    let f = subject_rt::drivers::fuzz_check(st.subjects[idx], sd, p, input, with_partial);
    let n = EXECS.fetch_add(1, Ordering::Relaxed) + 1;
    if input.len() >= 4 {
        NONTRIVIAL.fetch_add(1, Ordering::Relaxed);
    }
    if n % 2048 == 0 {
        if let Ok(path) = std::env::var("VERIF_FUZZ_STATS") {
            let _ = std::fs::write(path, format!("{{\"execs\": {n}, \"inputs_len_ge_4\": {}}}", NONTRIVIAL.load(Ordering::Relaxed)));
        }
    }
    // a campaign run for one property only stops on findings of that property
    static ONLY: OnceLock<Option<String>> = OnceLock::new();
    let only = ONLY.get_or_init(|| std::env::var("VERIF_FUZZ_PROP").ok());
    let f: Vec<_> = f.into_iter().filter(|x| only.as_deref().map(|o| o == x.property).unwrap_or(true)).collect();
    if let Some(x) = f.first() {
        panic!("FINDING property={} def={} input={} : {}\n{}", x.property, idx, model::show(input), x.what, p.rust);
    }
});
