#![no_main]
//! Fuzzing the public Lexer API (C14 histories, C15 bumps) on the fixed definition pairs of tier A:
//! bytes -> op sequence decoded with `arbitrary`; the reference model runs inside the target.
#![allow(dead_code, unused_imports)]
use arbitrary::Unstructured;
use libfuzzer_sys::fuzz_target;

#[path = "../../harness/apicheck/src/defs.rs"]
mod defs;
#[path = "../../harness/apicheck/src/c14.rs"]
mod c14;
#[path = "../../harness/apicheck/src/c15.rs"]
mod c15;

const STR_ATOMS: &[&str] = &["a", "bc", "é", "ÿz", "_x1", "日本", "日", "12", "0", "+", "=", "==", "\"q\"", "\"", " ", "\n", "\n\n", "\t", "// c\n", "//", "😀", "ß", "ééx", "x", "-"];
const BYTE_ATOMS: &[&[u8]] = &[b"a", b"xyz", b"12", b"0", b" ", b"\n", b"\x00", b"\x00\x00", b"\x80", b"\xff\xfe", b"<a>", b"<", b">", b"\xc3\xa9", b"\xc3", b"\xa9", b"-", b"\t"];

fuzz_target!(|data: &[u8]| {
    let mut u = Unstructured::new(data);
    let which = u.int_in_range(0..=2u8).unwrap_or(0);
    let bytes_mode = u.arbitrary::<bool>().unwrap_or(false);
    let mut input = Vec::new();
    for _ in 0..u.int_in_range(0..=12).unwrap_or(0) {
        if bytes_mode {
            input.extend_from_slice(u.choose(BYTE_ATOMS).unwrap_or(&&b"a"[..]));
        } else {
            input.extend_from_slice(u.choose(STR_ATOMS).unwrap_or(&"a").as_bytes());
        }
    }
    let only = std::env::var("VERIF_FUZZ_PROP").ok();
    let which = match only.as_deref() {
        Some("C14") => 0,
        Some("C15") => 2,
        _ => which,
    };
    if which < 2 {
        let start_b = u.arbitrary::<bool>().unwrap_or(false);
        let partial = u.ratio(1, 3).unwrap_or(false);
        let mut ops = Vec::new();
        for _ in 0..u.int_in_range(0..=30).unwrap_or(0) {
            let op = match u.int_in_range(0..=21u8).unwrap_or(0) {
                0..=7 => c14::Op::Next,
                8..=10 => c14::Op::Bump(u.arbitrary::<u16>().unwrap_or(0)),
                11 | 12 => c14::Op::CloneCheck,
                13 => c14::Op::CloneSwitch,
                14..=16 => c14::Op::Morph,
                17 => c14::Op::Spanned,
                18 => c14::Op::Accessors,
                20 | 21 => c14::Op::CloneFrom(u.arbitrary::<u8>().unwrap_or(0)),
                _ => c14::Op::Extras(u.arbitrary::<u8>().unwrap_or(1)),
            };
            ops.push(op);
        }
        let case = c14::Case { bytes_mode, start_b, partial, input, ops };
        if let Err(m) = c14::interpret(&case, None) {
            panic!("FINDING property=C14 {m}\n{case:?}");
        }
    } else {
        // C15 relies on catching the bump panic; libFuzzer's hook aborts on any panic, so here only bumps
        // that must succeed are issued and the span arithmetic is checked
        let source_kind = u.int_in_range(0..=3u8).unwrap_or(0);
        let nexts = u.int_in_range(0..=4u8).unwrap_or(0);
        let mut bumps = Vec::new();
        for _ in 0..u.int_in_range(1..=4).unwrap_or(1) {
            bumps.push(c15::N::Boundary(u.arbitrary::<u8>().unwrap_or(0), 0));
        }
        let partial = u.ratio(1, 3).unwrap_or(false);
        let case = c15::Case { source_kind, bytes_mode, input, nexts, bumps, partial };
        if let Err(m) = c15::interpret(&case, None) {
            panic!("FINDING property=C15 {m}\n{case:?}");
        }
    }
});
