#!/bin/bash
# Re-runs every quick check on the current (clean) tree so that the committed evidence files come from /verif run against /repo itself.
cd /verif
[ -n "$(git -C /repo status --porcelain)" ] && { echo "/repo is not clean"; exit 9; }
for id in C01 C02 C03 C04 C05 C06 C07 C08 C09 C10 C11 C12 C13 C14 C15 C16 C17 C18 C19 C20; do
  S=$(date +%s); OUT=$(./check $id 2>/tmp/refresh.err); RC=$?
  echo "$id exit=$RC $(( $(date +%s) - S ))s $(echo "$OUT" | grep -c '^VIOLATION') violations"
  [ $RC -ne 0 ] && { echo "$OUT" | tail -3; tail -3 /tmp/refresh.err; }
done
python3-vt -c "
import json, jsonschema, glob
s=json.load(open('/root/.vp/EVIDENCE.schema.json'))
for f in sorted(glob.glob('/verif/evidence/*.json')):
    d=json.load(open(f)); jsonschema.validate(d,s); assert d['violations']==0, f
print('all evidence valid, no violations')"
